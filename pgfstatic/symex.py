"""E2 - path facts and value resolution for one function.

A syntax-directed abstract walk over the statement kinds this repository uses.
For every statement it records

  * env    : local name / `self.attr` -> the (already resolved) expression that
             defines it on *every* path reaching the statement, or a phi node
             `__phi__(a, b, ...)` when paths disagree, or `__loop__(name)` for
             values carried around a loop;
  * facts  : the conditions that hold on every path reaching the statement
             (enclosing tests, negations of earlier tests whose body always
             leaves, asserts), each resolved through env and normalised.

Nothing is executed; expressions stay `ast` nodes.  Conditions are normalised
to atoms  (op, lhs, rhs)  with op in {<=, <, ==, !=, is, isnot, in, notin} or
('truthy'|'falsy', expr, None); `a >= b` becomes `b <= a`, negation flips the
operator, `and` under positive / `or` under negative polarity splits.
"""
from __future__ import annotations

import ast
import re
import copy
from dataclasses import dataclass, field
from typing import Set, Dict, Iterable, List, Optional, Sequence, Tuple

from .model import FuncInfo, dotted, unparse

Atom = Tuple[str, str, Optional[str]]

PHI = "__phi__"
LOOP = "__loop__"
ITER = "__iter_elem__"
UNPACK = "__item__"

_NEG = {"<=": ">", "<": ">=", ">": "<=", ">=": "<", "==": "!=", "!=": "==",
        "is": "isnot", "isnot": "is", "in": "notin", "notin": "in"}
_OPS = {ast.LtE: "<=", ast.Lt: "<", ast.GtE: ">=", ast.Gt: ">", ast.Eq: "==", ast.NotEq: "!=",
        ast.Is: "is", ast.IsNot: "isnot", ast.In: "in", ast.NotIn: "notin"}


def u(e: Optional[ast.AST]) -> Optional[str]:
    return None if e is None else unparse(e)


def atoms_of(cond: ast.AST, positive: bool = True) -> List[Atom]:
    """normalised conjunction of atoms implied by cond (positive) / not cond."""
    if isinstance(cond, ast.UnaryOp) and isinstance(cond.op, ast.Not):
        return atoms_of(cond.operand, not positive)
    if isinstance(cond, ast.BoolOp):
        if (isinstance(cond.op, ast.And) and positive) or (isinstance(cond.op, ast.Or) and not positive):
            out: List[Atom] = []
            for v in cond.values:
                out += atoms_of(v, positive)
            return out
        # disjunction: keep as one opaque atom
        return [("truthy" if positive else "falsy", unparse(cond), None)]
    if isinstance(cond, ast.Compare) and len(cond.ops) == 1:
        op = _OPS.get(type(cond.ops[0]))
        if op is not None:
            if not positive:
                op = _NEG[op]
            a, b = cond.left, cond.comparators[0]
            # `<list / tuple / dict / set display> is not None` says nothing (a display is never None)
            if op == "isnot" and isinstance(b, ast.Constant) and b.value is None and isinstance(a, (ast.List, ast.Tuple, ast.Dict, ast.Set, ast.ListComp, ast.DictComp, ast.SetComp)):
                return []
            if op == ">=":
                op, a, b = "<=", b, a
            elif op == ">":
                op, a, b = "<", b, a
            return [(op, unparse(a), unparse(b))]
    if isinstance(cond, ast.Compare) and len(cond.ops) > 1 and positive:
        out = []
        left = cond.left
        for op, right in zip(cond.ops, cond.comparators):
            out += atoms_of(ast.Compare(left=left, ops=[op], comparators=[right]), True)
            left = right
        return out
    if isinstance(cond, ast.Call) and isinstance(cond.func, ast.Name) and cond.func.id == "bool" and len(cond.args) == 1:
        return atoms_of(cond.args[0], positive)
    if isinstance(cond, ast.IfExp):
        # conditional expressions with a boolean literal arm are conjunctions / disjunctions in disguise
        def lit(e, v):
            return isinstance(e, ast.Constant) and e.value is v
        if positive and lit(cond.body, False):        # (False if C else X)  <=>  not C and X
            return atoms_of(cond.test, False) + atoms_of(cond.orelse, True)
        if positive and lit(cond.orelse, False):      # (X if C else False)  <=>  C and X
            return atoms_of(cond.test, True) + atoms_of(cond.body, True)
        if not positive and lit(cond.body, True):     # not (True if C else X)  <=>  not C and not X
            return atoms_of(cond.test, False) + atoms_of(cond.orelse, False)
        if not positive and lit(cond.orelse, True):   # not (X if C else True)  <=>  C and not X
            return atoms_of(cond.test, True) + atoms_of(cond.body, False)
    return [("truthy" if positive else "falsy", unparse(cond), None)]


def always_leaves(body: Sequence[ast.stmt]) -> bool:
    """every path through body ends in return / raise / break / continue."""
    for s in body:
        if isinstance(s, (ast.Return, ast.Raise, ast.Break, ast.Continue)):
            return True
        if isinstance(s, ast.If):
            if s.orelse and always_leaves(s.body) and always_leaves(s.orelse):
                return True
        if isinstance(s, ast.Try):
            if always_leaves(s.finalbody):
                return True
            if (always_leaves(s.body) or (s.orelse and always_leaves(s.orelse))) and all(always_leaves(h.body) for h in s.handlers):
                return True
        if isinstance(s, ast.With) and always_leaves(s.body):
            return True
    return False


class _Subst(ast.NodeTransformer):
    def __init__(self, env: Dict[str, ast.AST], epoch_of=None):
        self.env = env

    def visit_Name(self, node: ast.Name):
        if isinstance(node.ctx, ast.Load) and node.id in self.env:
            return copy.deepcopy(self.env[node.id])
        return node

    def visit_Attribute(self, node: ast.Attribute):
        d = dotted(node)
        if d is not None and d in self.env and isinstance(node.ctx, ast.Load):
            return copy.deepcopy(self.env[d])
        return self.generic_visit(node)

    def visit_Call(self, node: ast.Call):
        node = self.generic_visit(node)
        # beta reduction: a call of a lambda the name was bound to (`w = lambda i, j: a[i] - b[j]` ... `w(r, c)`)
        f = node.func
        if isinstance(f, ast.Lambda) and not node.keywords and not any(isinstance(a, ast.Starred) for a in node.args) \
                and not f.args.vararg and not f.args.kwarg and not f.args.kwonlyargs and len(f.args.args) + len(f.args.posonlyargs) == len(node.args):
            names = [a.arg for a in f.args.posonlyargs + f.args.args]
            sub = _Subst(dict(zip(names, node.args)))
            return sub.visit(copy.deepcopy(f.body))
        return node

    def visit_Lambda(self, node):
        # substitute free names only
        bound = {a.arg for a in node.args.args + node.args.kwonlyargs + node.args.posonlyargs}
        saved = self.env
        self.env = {k: v for k, v in saved.items() if k.split(".")[0] not in bound}
        try:
            node.body = self.visit(node.body)
        finally:
            self.env = saved
        return node

    def _comp(self, node):
        bound = set()
        for g in node.generators:
            for n in ast.walk(g.target):
                if isinstance(n, ast.Name):
                    bound.add(n.id)
        saved = self.env
        self.env = {k: v for k, v in saved.items() if k.split(".")[0] not in bound}
        try:
            return self.generic_visit(node)
        finally:
            self.env = saved

    visit_ListComp = visit_GeneratorExp = visit_SetComp = visit_DictComp = _comp


IMPURE_BUILTINS = ("next",)


class _TagImpure(ast.NodeTransformer):
    """Calls are otherwise identified by their text (two sites with the same text denote the same
    value).  That is wrong for stateful builtins such as next(gen): tag each such call with its
    source position so that different sites stay different values."""

    def visit_Call(self, node: ast.Call):
        self.generic_visit(node)
        if isinstance(node.func, ast.Name) and node.func.id in IMPURE_BUILTINS and hasattr(node, "lineno") \
                and not any(isinstance(a, ast.Constant) and isinstance(a.value, str) and a.value.startswith("@site") for a in node.args):
            node.args = list(node.args) + [ast.Constant(value=f"@site{node.lineno}:{node.col_offset}")]
        return node


class _CanonCompare(ast.NodeTransformer):
    """one orientation for order comparisons everywhere (also inside call arguments such as np.all(x >= lb)):
    `a >= b` -> `b <= a`, `a > b` -> `b < a`; `not a <= b` style negations of a single comparison are folded."""

    def visit_Compare(self, node: ast.Compare):
        self.generic_visit(node)
        if len(node.ops) == 1 and isinstance(node.ops[0], (ast.GtE, ast.Gt)):
            op = ast.LtE() if isinstance(node.ops[0], ast.GtE) else ast.Lt()
            return ast.copy_location(ast.Compare(left=node.comparators[0], ops=[op], comparators=[node.left]), node)
        return node

    def visit_UnaryOp(self, node: ast.UnaryOp):
        self.generic_visit(node)
        if isinstance(node.op, ast.Not) and isinstance(node.operand, ast.Compare) and len(node.operand.ops) == 1:
            c = node.operand
            flip = {ast.Is: ast.IsNot, ast.IsNot: ast.Is, ast.Eq: ast.NotEq, ast.NotEq: ast.Eq, ast.In: ast.NotIn, ast.NotIn: ast.In}
            t = type(c.ops[0])
            if t in flip:
                return ast.copy_location(ast.Compare(left=c.left, ops=[flip[t]()], comparators=c.comparators), node)
        return node


def resolve(expr: ast.AST, env: Dict[str, ast.AST]) -> ast.AST:
    e = _TagImpure().visit(copy.deepcopy(expr))
    e = _Subst(env).visit(e)
    return ast.fix_missing_locations(_CanonCompare().visit(e))


def mk_call(name: str, args: List[ast.AST]) -> ast.Call:
    return ast.Call(func=ast.Name(id=name, ctx=ast.Load()), args=args, keywords=[])


def is_call_to(e: ast.AST, name: str) -> bool:
    return isinstance(e, ast.Call) and isinstance(e.func, ast.Name) and e.func.id == name


def phi_alternatives(e: ast.AST) -> List[ast.AST]:
    if is_call_to(e, PHI):
        out = []
        for a in e.args:
            out += phi_alternatives(a)
        return out
    if isinstance(e, ast.IfExp):
        return phi_alternatives(e.body) + phi_alternatives(e.orelse)
    return [e]


_PHI_COND_ALL: Dict[str, list] = {}


def simplify_under(e: ast.AST, facts) -> ast.AST:
    """decide conditional expressions whose test (or its negation) is among the path facts of the statement."""
    fs = set(facts)

    def holds(a) -> bool:
        if a in fs:
            return True
        # `v is not None` on an optional carrier is recorded as the condition of the branch that bound it
        c = _PHI_COND_ALL.get(a[1]) if a[0] == "isnot" and a[2] == "None" else None
        return bool(c) and all(f in fs for f in c)

    class _S(ast.NodeTransformer):
        def visit_IfExp(self, n):
            self.generic_visit(n)
            pos, neg = atoms_of(n.test, True), atoms_of(n.test, False)
            if pos and all(holds(a) for a in pos):
                return n.body
            if neg and all(a in fs for a in neg):
                return n.orelse
            return n
    return _S().visit(copy.deepcopy(e))


@dataclass
class StmtInfo:
    stmt: ast.stmt
    env: Dict[str, ast.AST]
    facts: List[Atom]
    loops: Tuple[ast.stmt, ...]  # enclosing loop statements, outermost first
    tries: Tuple[ast.Try, ...]  # enclosing try statements whose *body* contains stmt
    handlers: Tuple[ast.ExceptHandler, ...] = ()  # enclosing except handlers
    index: int = 0


class FuncFacts:
    """walks one function; after construction `info[id(stmt)]` is available for
    every statement of the function body (not nested defs)."""

    def __init__(self, fi: FuncInfo, params_env: Optional[Dict[str, ast.AST]] = None):
        self.fi = fi
        self.info: Dict[int, StmtInfo] = {}
        self.order: List[StmtInfo] = []
        self.exit_envs: List[Tuple[ast.stmt, Dict[str, ast.AST], List[Atom]]] = []
        env: Dict[str, ast.AST] = dict(params_env or {})
        # private module-level numeric constants (`_UNSET_RHO = -1.0`, `_GROWTH = 10.0`) stand for their literal
        try:
            for k_, v_ in _module_literals(fi.module).items():
                if k_ not in env and k_ not in fi.params and not any(isinstance(n_, ast.Name) and n_.id == k_ and isinstance(n_.ctx, ast.Store) for n_ in ast.walk(fi.node)):
                    env[k_] = v_
        except Exception:
            pass
        self.const_flags = self._find_const_flags(fi.node)
        self._walk_block(fi.node.body, env, [], (), (), ())

    @staticmethod
    def _find_const_flags(fn) -> Dict[str, List[Tuple[bool, ast.stmt]]]:
        """local names whose EVERY binding is a literal True / False (flags set in branches): name -> [(value, statement)]."""
        defs: Dict[str, List] = {}
        copies: Dict[str, List[str]] = {}
        bad: Set[str] = set()

        def note(t, v, st):
            if isinstance(t, ast.Name):
                if isinstance(v, ast.Constant) and (isinstance(v.value, bool) or v.value is None):
                    defs.setdefault(t.id, []).append((v.value, st))      # True / False / None (a three-valued verdict)
                elif isinstance(v, ast.Name):
                    copies.setdefault(t.id, []).append(v.id)     # a plain copy of another (possibly literal) flag
                    defs.setdefault(t.id, [])
                else:
                    bad.add(t.id)
            elif isinstance(t, (ast.Tuple, ast.List)):
                if isinstance(v, (ast.Tuple, ast.List)) and len(v.elts) == len(t.elts):
                    for a, b in zip(t.elts, v.elts):
                        note(a, b, st)
                else:
                    for a in t.elts:
                        note(a, None, st)
        todo = list(fn.body)
        while todo:
            n = todo.pop()
            if isinstance(n, (ast.FunctionDef, ast.AsyncFunctionDef, ast.ClassDef, ast.Lambda)):
                bad.add(getattr(n, "name", ""))
                continue
            if isinstance(n, ast.Assign):
                for t in n.targets:
                    note(t, n.value, n)
            elif isinstance(n, ast.AnnAssign) and n.value is not None:
                note(n.target, n.value, n)
            elif isinstance(n, ast.AugAssign):
                note(n.target, None, n)
            elif isinstance(n, (ast.For, ast.AsyncFor)):
                note(n.target, None, n)
            elif isinstance(n, (ast.With, ast.AsyncWith)):
                for it in n.items:
                    if it.optional_vars is not None:
                        note(it.optional_vars, None, n)
            elif isinstance(n, ast.NamedExpr):
                note(n.target, None, n)
            elif isinstance(n, ast.ExceptHandler) and n.name:
                bad.add(n.name)
            todo.extend(ast.iter_child_nodes(n))
        a = fn.args
        for x in a.posonlyargs + a.args + a.kwonlyargs:
            bad.add(x.arg)
        # copies: a name is a literal flag if all its bindings are literals or copies of literal flags (one level per round)
        changed = True
        while changed:
            changed = False
            for k, srcs in copies.items():
                if k in bad:
                    continue
                if any(src in bad or src not in defs for src in srcs):
                    bad.add(k)
                    changed = True
        out = {}
        for k, v in defs.items():
            if k in bad:
                continue
            sites = list(v)
            seen = {k}
            todo = list(copies.get(k, []))
            while todo:
                src = todo.pop()
                if src in seen:
                    continue
                seen.add(src)
                sites += defs.get(src, [])
                todo += copies.get(src, [])
            if sites:
                out[k] = sites
        return out

    # -- helpers ------------------------------------------------------------
    def at(self, stmt: ast.stmt) -> StmtInfo:
        return self.info[id(stmt)]

    def resolved(self, stmt: ast.stmt, expr: ast.AST) -> ast.AST:
        return resolve(expr, self.at(stmt).env)

    def statements(self, kind=None) -> List[StmtInfo]:
        return [s for s in self.order if kind is None or isinstance(s.stmt, kind)]

    def stmt_of(self, node: ast.AST) -> Optional[StmtInfo]:
        """the innermost recorded statement containing node."""
        best = None
        for s in self.order:
            for n in ast.walk(s.stmt):
                if n is node:
                    best = s if best is None or self._size(s.stmt) <= self._size(best.stmt) else best
                    break
        return best

    def _size(self, n):
        # number of AST nodes (line spans are meaningless for expanded helper code, whose statements all carry the call site's line)
        c = self.__dict__.setdefault("_size_cache", {})
        k = id(n)
        if k not in c:
            c[k] = sum(1 for _ in ast.walk(n))
        return c[k]

    # -- walk ---------------------------------------------------------------
    def _record(self, stmt, env, facts, loops, tries, handlers):
        si = StmtInfo(stmt, dict(env), list(facts), loops, tries, handlers, len(self.order))
        self.info[id(stmt)] = si
        self.order.append(si)
        return si

    def _assign(self, env, target, value_resolved):
        if isinstance(target, ast.Name):
            env[target.id] = value_resolved
            # invalidate attribute entries rooted at this name
            for k in [k for k in env if k.startswith(target.id + ".")]:
                del env[k]
        elif isinstance(target, (ast.Tuple, ast.List)):
            if isinstance(value_resolved, (ast.Tuple, ast.List)) and len(value_resolved.elts) == len(target.elts):
                for t, v in zip(target.elts, value_resolved.elts):
                    self._assign(env, t, v)
            else:
                for k, t in enumerate(target.elts):
                    self._assign(env, t, mk_call(UNPACK, [value_resolved, ast.Constant(k)]))
        elif isinstance(target, ast.Attribute):
            d = dotted(target)
            if d is not None:
                env[d] = value_resolved
        elif isinstance(target, ast.Starred):
            self._assign(env, target.value, mk_call(UNPACK, [value_resolved, ast.Constant("*")]))
        # subscript stores do not rebind names

    def _assigned_names(self, body: Iterable[ast.stmt]) -> List[str]:
        out: List[str] = []

        def tgt(t):
            if isinstance(t, ast.Name):
                out.append(t.id)
            elif isinstance(t, (ast.Tuple, ast.List)):
                for e in t.elts:
                    tgt(e)
            elif isinstance(t, ast.Attribute):
                d = dotted(t)
                if d:
                    out.append(d)
            elif isinstance(t, ast.Starred):
                tgt(t.value)

        for s in body:
            for n in ast.walk(s):
                if isinstance(n, (ast.FunctionDef, ast.AsyncFunctionDef, ast.ClassDef)):
                    out.append(n.name)
                if isinstance(n, ast.Assign):
                    for t in n.targets:
                        tgt(t)
                elif isinstance(n, (ast.AugAssign, ast.AnnAssign)):
                    tgt(n.target)
                elif isinstance(n, ast.For):
                    tgt(n.target)
                elif isinstance(n, ast.NamedExpr):
                    tgt(n.target)
                elif isinstance(n, ast.With):
                    for it in n.items:
                        if it.optional_vars is not None:
                            tgt(it.optional_vars)
                elif isinstance(n, ast.ExceptHandler) and n.name:
                    out.append(n.name)
                elif isinstance(n, (ast.Import, ast.ImportFrom)):
                    for a in n.names:
                        out.append((a.asname or a.name).split(".")[0])
        return out

    def _merge(self, envs: List[Dict[str, ast.AST]], base: Dict[str, ast.AST]) -> Dict[str, ast.AST]:
        if not envs:
            return dict(base)
        if len(envs) == 1:
            return dict(envs[0])
        keys = set()
        for e in envs:
            keys |= set(e)
        out: Dict[str, ast.AST] = {}
        for k in keys:
            vals = []
            for e in envs:
                if k in e:
                    v = e[k]
                else:
                    v = ast.Name(id=k, ctx=ast.Load()) if "." not in k else ast.parse(k, mode="eval").body
                if not any(unparse(v) == unparse(w) for w in vals):
                    vals.append(v)
            out[k] = vals[0] if len(vals) == 1 else mk_call(PHI, vals)
        return out

    def _walk_block(self, body, env, facts, loops, tries, handlers):
        """returns env at normal fall-through exit, or None if block always leaves."""
        env = dict(env)
        facts = list(facts)
        for stmt in body:
            self._record(stmt, env, facts, loops, tries, handlers)
            r = self._walk_stmt(stmt, env, facts, loops, tries, handlers)
            if r is None:
                return None
            env, facts = r
        return env, facts

    def _walk_stmt(self, stmt, env, facts, loops, tries, handlers):
        if isinstance(stmt, (ast.Return, ast.Raise)):
            self.exit_envs.append((stmt, dict(env), list(facts)))
            return None
        if isinstance(stmt, (ast.Break, ast.Continue)):
            return None
        if isinstance(stmt, ast.Assign):
            v = resolve(stmt.value, env)
            for t in stmt.targets:
                self._assign(env, t, v)
            return env, facts
        if isinstance(stmt, ast.AnnAssign):
            if stmt.value is not None:
                self._assign(env, stmt.target, resolve(stmt.value, env))
            return env, facts
        if isinstance(stmt, ast.AugAssign):
            cur = resolve(ast.fix_missing_locations(copy.deepcopy(_load(stmt.target))), env)
            v = ast.BinOp(left=cur, op=stmt.op, right=resolve(stmt.value, env))
            self._assign(env, stmt.target, v)
            return env, facts
        if isinstance(stmt, ast.Assert):
            facts = facts + self._resolved_atoms(stmt.test, env, True)
            return env, facts
        if isinstance(stmt, ast.If):
            pos = self._resolved_atoms(stmt.test, env, True)
            neg = self._resolved_atoms(stmt.test, env, False)
            env1, env2 = _narrow_none(env, stmt.test, True), _narrow_none(env, stmt.test, False)
            if env1 is not env:
                pn = [a for a in self._resolved_atoms(stmt.test, env1, True) if not (a[0] == "isnot" and a[2] == "None" and a not in pos)]
                pos = pn + [a for a in pos if a not in pn and PHI not in a[1] and PHI not in (a[2] or "")]
            if env2 is not env:
                nn = [a for a in self._resolved_atoms(stmt.test, env2, False) if not (a[0] == "isnot" and a[2] == "None" and a not in neg)]
                neg = nn + [a for a in neg if a not in nn and PHI not in a[1] and PHI not in (a[2] or "")]
            r1 = self._walk_block(stmt.body, env1, facts + pos, loops, tries, handlers)
            r2 = self._walk_block(stmt.orelse, env2, facts + neg, loops, tries, handlers) if stmt.orelse else (dict(env2), facts + neg)
            if r1 is None and r2 is None:
                return None
            if r1 is None:
                return r2[0], r2[1]
            if r2 is None:
                return r1[0], r1[1]
            merged = self._merge([r1[0], r2[0]], env)
            # `v = None` before, `v = X` in one branch only: `v is not None` later means that branch ran, i.e. its condition held
            for k_, mv in merged.items():
                a_, b_ = r1[0].get(k_), r2[0].get(k_)
                if a_ is None or b_ is None:
                    continue
                na, nb = isinstance(a_, ast.Constant) and a_.value is None, isinstance(b_, ast.Constant) and b_.value is None
                if na != nb and isinstance(mv, ast.Call) and isinstance(mv.func, ast.Name) and mv.func.id == PHI:
                    # everything that held at the end of the binding branch and not before the `if` (its test, asserts inside it),
                    # plus - when the bound value is itself an optional carrier - what that one stands for
                    side_facts = r2[1] if na else r1[1]
                    cond = list(neg if na else pos) + [f for f in side_facts if f not in facts and f not in (neg if na else pos)]
                    inner = b_ if na else a_
                    cond += [f for f in self.__dict__.get("phi_cond", {}).get(unparse(inner), []) if f not in cond]
                    self.__dict__.setdefault("phi_cond", {})[unparse(mv)] = cond
                    _PHI_COND_ALL[unparse(mv)] = cond
            common = [f for f in r1[1] if f in r2[1]]
            return merged, common
        if isinstance(stmt, (ast.For, ast.While)):
            assigned = set(self._assigned_names(stmt.body))
            walrus = [n for n in ast.walk(stmt.test)] if isinstance(stmt, ast.While) else []
            walrus = [n for n in walrus if isinstance(n, ast.NamedExpr) and isinstance(n.target, ast.Name)]
            assigned |= {n.target.id for n in walrus}
            lenv = dict(env)
            for k in list(lenv):
                root = k.split(".")[0]
                if k in assigned or root in assigned:
                    lenv[k] = mk_call(LOOP, [ast.Constant(k), ast.Constant(getattr(stmt, "lineno", 0))])
            for k in assigned:
                if k not in lenv:
                    lenv[k] = mk_call(LOOP, [ast.Constant(k), ast.Constant(getattr(stmt, "lineno", 0))])
            # facts about loop-carried names are dropped
            lfacts = [f for f in facts if not _mentions(f, assigned)]
            if isinstance(stmt, ast.For):
                self._assign(lenv, stmt.target, mk_call(ITER, [resolve(stmt.iter, env)]))
                bfacts = lfacts
            else:
                # `while (v := f(..)) is None:` binds v at the loop head, before every execution of the body
                for n in walrus:
                    lenv[n.target.id] = resolve(n.value, lenv)
                bfacts = lfacts + self._resolved_atoms(_strip_walrus(stmt.test), lenv, True)
            self._walk_block(stmt.body, lenv, bfacts, loops + (stmt,), tries, handlers)
            # after the loop: carried names unknown
            aenv = dict(lenv)
            afacts = list(lfacts)
            if isinstance(stmt, ast.While) and not _has_break(stmt.body):
                afacts += self._resolved_atoms(_strip_walrus(stmt.test), lenv, False)
            if stmt.orelse:
                r = self._walk_block(stmt.orelse, aenv, afacts, loops, tries, handlers)
                if r is None and not _has_break(stmt.body):
                    return None
                if r is not None:
                    aenv = self._merge([aenv, r[0]], aenv) if _has_break(stmt.body) else r[0]
            if isinstance(stmt, ast.While) and _is_true(stmt.test) and not _has_break(stmt.body):
                return None
            return aenv, afacts
        if isinstance(stmt, ast.Try):
            r_body = self._walk_block(stmt.body, env, facts, loops, tries + (stmt,), handlers)
            # handler entry: anything assigned in the body may or may not have happened
            assigned = set(self._assigned_names(stmt.body))
            henv = dict(env)
            for k in assigned:
                prev = env.get(k)
                henv[k] = mk_call(PHI, [prev if prev is not None else ast.Name(id="__unbound__", ctx=ast.Load()),
                                         mk_call(LOOP, [ast.Constant(k), ast.Constant(stmt.lineno)])])
            outs = []
            if r_body is not None:
                if stmt.orelse:
                    r_else = self._walk_block(stmt.orelse, r_body[0], r_body[1], loops, tries, handlers)
                    if r_else is not None:
                        outs.append(r_else)
                else:
                    outs.append(r_body)
            for h in stmt.handlers:
                he = dict(henv)
                if h.name:
                    he[h.name] = ast.Name(id=h.name, ctx=ast.Load())
                rh = self._walk_block(h.body, he, facts, loops, tries, handlers + (h,))
                if rh is not None:
                    outs.append(rh)
            if stmt.finalbody:
                base = self._merge([o[0] for o in outs], env) if outs else dict(henv)
                rf = self._walk_block(stmt.finalbody, base, facts, loops, tries, handlers)
                if rf is None or not outs:
                    return None
                return rf
            if not outs:
                return None
            merged = self._merge([o[0] for o in outs], env)
            common = [f for f in outs[0][1] if all(f in o[1] for o in outs[1:])]
            return merged, common
        if isinstance(stmt, ast.With):
            for it in stmt.items:
                if it.optional_vars is not None:
                    self._assign(env, it.optional_vars, resolve(it.context_expr, env))
            return self._walk_block(stmt.body, env, facts, loops, tries, handlers)
        if isinstance(stmt, (ast.FunctionDef, ast.AsyncFunctionDef, ast.ClassDef)):
            env.pop(stmt.name, None)
            # a local expression function (`def w(i, j): return a[i] - b[j]`) is the lambda of its return expression
            if isinstance(stmt, ast.FunctionDef) and not stmt.decorator_list and not stmt.args.vararg and not stmt.args.kwarg and not stmt.args.kwonlyargs \
                    and not stmt.args.defaults:
                b = [x for x in stmt.body if not (isinstance(x, ast.Expr) and isinstance(x.value, ast.Constant))]

                def as_expr(block):
                    # `return e`, or `if c: return a  else: return b` (nested) as the conditional expression it is
                    blk = [x for x in block if not (isinstance(x, ast.Expr) and isinstance(x.value, ast.Constant))]
                    if len(blk) == 1 and isinstance(blk[0], ast.Return) and blk[0].value is not None:
                        return copy.deepcopy(blk[0].value)
                    if len(blk) == 1 and isinstance(blk[0], ast.If) and blk[0].orelse:
                        a_, b_ = as_expr(blk[0].body), as_expr(blk[0].orelse)
                        if a_ is not None and b_ is not None:
                            return ast.IfExp(test=copy.deepcopy(blk[0].test), body=a_, orelse=b_)
                    return None
                body_expr = as_expr(b)
                if body_expr is not None:
                    lam = ast.Lambda(args=copy.deepcopy(stmt.args), body=body_expr)
                    # capture-avoiding: the parameters get fresh names before the free names of the body are resolved (an outer
                    # `iterate` substituted into the body must not be captured by a parameter that is also called `iterate`)
                    ren = {}
                    for a_ in lam.args.args + lam.args.posonlyargs:
                        a_.annotation = None
                        ren[a_.arg] = f"__p{stmt.lineno}_{a_.arg}"
                        a_.arg = ren[a_.arg]
                    for n_ in ast.walk(lam.body):
                        if isinstance(n_, ast.Name) and n_.id in ren:
                            n_.id = ren[n_.id]
                    env[stmt.name] = resolve(ast.fix_missing_locations(ast.copy_location(lam, stmt)), env)
            return env, facts
        if isinstance(stmt, (ast.Import, ast.ImportFrom)):
            for a in stmt.names:
                env.pop((a.asname or a.name).split(".")[0], None)
            return env, facts
        if isinstance(stmt, ast.Expr):
            # method calls on self may change self.* ; in-place methods may change locals
            return env, facts
        if isinstance(stmt, (ast.Pass, ast.Global, ast.Nonlocal, ast.Delete)):
            return env, facts
        if hasattr(ast, "Match") and isinstance(stmt, ast.Match):
            raise NotImplementedError(f"match statement in {self.fi.qualname} is not supported")
        return env, facts

    def _resolved_atoms(self, test, env, positive) -> List[Atom]:
        out = atoms_of(resolve(test, env), positive)
        pc = self.__dict__.get("phi_cond")
        if pc:
            extra = []
            kept = []
            for a in out:
                if a[0] == "isnot" and a[2] == "None" and a[1] in pc:
                    # replaced by what it stands for: the condition of the branch that bound the non-None value
                    extra += [f for f in pc[a[1]] if f not in out and f not in extra]
                else:
                    kept.append(a)
            out = kept + extra
        # a flag that is only ever bound to literal True / False: `flag` being true implies everything that held at EVERY
        # place where it is set to True (the conditions those assignments are nested in) - and dually for false
        t, pos = test, positive
        while isinstance(t, ast.UnaryOp) and isinstance(t.op, ast.Not):
            t, pos = t.operand, not pos
        none_test = None
        if isinstance(t, ast.Compare) and len(t.ops) == 1 and isinstance(t.left, ast.Name) and t.left.id in self.const_flags \
                and isinstance(t.comparators[0], ast.Constant) and t.comparators[0].value is None and isinstance(t.ops[0], (ast.Is, ast.IsNot)):
            # `verdict is None` / `verdict is not None` on a three-valued literal flag
            none_test = isinstance(t.ops[0], ast.Is) == pos       # True: the flag IS None on this branch
            t = t.left
        if isinstance(t, ast.Name) and t.id in self.const_flags:
            if none_test is None:
                sites = [st for val, st in self.const_flags[t.id] if (val is True) == pos and (pos or val is not True)]
            else:
                sites = [st for val, st in self.const_flags[t.id] if (val is None) == none_test]
            if sites and all(id(st) in self.info for st in sites):
                common = None
                for st in sites:
                    fs = [f for f in self.info[id(st)].facts]
                    common = fs if common is None else [f for f in common if f in fs]
                # the opaque atom about the literal itself is replaced by what it stands for, plus a marker naming the flag
                out = [a for a in out if not (a[0] in ("truthy", "falsy", "is", "isnot") and re.fullmatch(r"(?:__phi__\()?(?:True|False|None)(?:, (?:True|False|None))*\)?", a[1]))]
                for f in common or []:
                    if f not in out:
                        out.append(f)
                out.append(("flag", t.id, str(pos)))
        return out


def _strip_walrus(e: ast.AST) -> ast.AST:
    """replace (v := expr) by v (the binding is done separately)."""
    class T(ast.NodeTransformer):
        def visit_NamedExpr(self, node):
            return ast.copy_location(ast.Name(id=node.target.id, ctx=ast.Load()), node) if isinstance(node.target, ast.Name) else node
    return T().visit(copy.deepcopy(e))


def _load(t: ast.AST) -> ast.AST:
    t = copy.deepcopy(t)
    for n in ast.walk(t):
        if hasattr(n, "ctx"):
            n.ctx = ast.Load()
    return t


def _mentions(atom: Atom, names) -> bool:
    for part in atom[1:]:
        if part is None:
            continue
        try:
            tree = ast.parse(part, mode="eval")
        except SyntaxError:
            return True
        for n in ast.walk(tree):
            if isinstance(n, ast.Name) and n.id in names:
                return True
            if isinstance(n, ast.Attribute):
                d = dotted(n)
                if d in names:
                    return True
    return False


def _has_break(body) -> bool:
    for s in body:
        for n in _walk_no_loops(s):
            if isinstance(n, ast.Break):
                return True
    return False


def _walk_no_loops(node):
    yield node
    for c in ast.iter_child_nodes(node):
        if isinstance(c, (ast.For, ast.While, ast.FunctionDef, ast.AsyncFunctionDef, ast.Lambda, ast.ClassDef)):
            continue
        yield from _walk_no_loops(c)


def _is_true(test) -> bool:
    return isinstance(test, ast.Constant) and test.value is True


_CACHE: Dict[int, FuncFacts] = {}


def _narrow_none(env: Dict[str, ast.AST], test: ast.AST, positive: bool) -> Dict[str, ast.AST]:
    """inside `if v is not None [and ..]:` (or the else of `if v is None [or ..]:`) a local whose value is `__phi__(X, None)` is X"""
    names = []

    def collect(t, pos):
        if isinstance(t, ast.UnaryOp) and isinstance(t.op, ast.Not):
            collect(t.operand, not pos)
        elif isinstance(t, ast.BoolOp) and ((isinstance(t.op, ast.And) and pos) or (isinstance(t.op, ast.Or) and not pos)):
            for v in t.values:
                collect(v, pos)
        elif isinstance(t, ast.Compare) and len(t.ops) == 1 and isinstance(t.left, ast.Name) and isinstance(t.comparators[0], ast.Constant) and t.comparators[0].value is None:
            if (isinstance(t.ops[0], ast.IsNot) and pos) or (isinstance(t.ops[0], ast.Is) and not pos):
                names.append(t.left.id)
    collect(test, positive)
    if not names:
        return env
    out = dict(env)
    for nm in names:
        v = out.get(nm)
        if isinstance(v, ast.Call) and isinstance(v.func, ast.Name) and v.func.id == PHI:
            def flat(x):
                if isinstance(x, ast.Call) and isinstance(x.func, ast.Name) and x.func.id == PHI:
                    return [y for a in x.args for y in flat(a)]
                return [x]
            allv = flat(v)
            rest = []
            for a in allv:
                if not (isinstance(a, ast.Constant) and a.value is None) and unparse(a) not in {unparse(r_) for r_ in rest}:
                    rest.append(a)
            v = mk_call(PHI, allv)
            if len(rest) == 1 and len(rest) < len(v.args):
                out[nm] = rest[0]
            elif 1 < len(rest) < len(v.args):
                out[nm] = mk_call(PHI, rest)
    return out


_MODLIT: Dict[int, Dict[str, ast.AST]] = {}


def _module_literals(mod) -> Dict[str, ast.AST]:
    """module-level names that start with an underscore, are bound exactly once at module level and never rebound anywhere in the
    module, to a numeric literal (possibly negated)"""
    k = id(mod)
    if k in _MODLIT:
        return _MODLIT[k]
    out: Dict[str, ast.AST] = {}
    stores: Dict[str, int] = {}
    for n in ast.walk(mod.tree):
        if isinstance(n, ast.Name) and isinstance(n.ctx, ast.Store):
            stores[n.id] = stores.get(n.id, 0) + 1
        if isinstance(n, ast.Global):
            for nm in n.names:
                stores[nm] = stores.get(nm, 0) + 2
    for st in mod.tree.body:
        v = st.value if isinstance(st, (ast.Assign, ast.AnnAssign)) else None
        t = (st.targets[0] if isinstance(st, ast.Assign) and len(st.targets) == 1 else getattr(st, "target", None)) if v is not None else None
        if not (isinstance(t, ast.Name) and t.id.startswith("_") and stores.get(t.id) == 1):
            continue
        lit = v.operand if isinstance(v, ast.UnaryOp) and isinstance(v.op, (ast.USub, ast.UAdd)) else v
        if isinstance(lit, ast.Constant) and isinstance(lit.value, (int, float)) and not isinstance(lit.value, bool):
            out[t.id] = v

        def simple(x):
            return isinstance(x, ast.Constant) or (isinstance(x, ast.Attribute) and isinstance(x.value, ast.Name))
        if isinstance(v, ast.Tuple) and 1 <= len(v.elts) <= 6 and all(simple(x) for x in v.elts):
            out[t.id] = v      # a private record of literals / enum members (`_FALLBACK = (Kind.X, "module", "Class")`)
    _MODLIT[k] = out
    return out


def facts_for(fi: FuncInfo) -> FuncFacts:
    k = id(fi.node)
    if k not in _CACHE:
        _CACHE[k] = FuncFacts(fi)
    return _CACHE[k]
