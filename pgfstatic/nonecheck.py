"""Belief contradiction for None (Engler et al.): a function that tests a value against None believes it can be None; if the
same value is dereferenced (`v.attr`, `v[..]`, `v(..)`) at a place that is reachable without passing such a test on its
non-None side, one of the two is wrong - and on the None case the dereference is an AttributeError / TypeError.

Only single-binding values are considered (a parameter that is never re-bound, or a local bound exactly once by a plain
assignment), so re-binding idioms (`if v is None: v = default`) never take part.  The walk is syntax-directed with a set of
names known to be non-None; knowledge gained inside loops / try / with bodies is dropped at their end, knowledge that held before
is kept (the names are never re-bound)."""
from __future__ import annotations
import ast
from typing import List, Set, Tuple


def _none_test(t: ast.AST):
    """(name, True) for `name is not None`, (name, False) for `name is None`, else None"""
    if isinstance(t, ast.Compare) and len(t.ops) == 1 and isinstance(t.left, ast.Name) and isinstance(t.comparators[0], ast.Constant) and t.comparators[0].value is None:
        if isinstance(t.ops[0], (ast.IsNot, ast.NotEq)):
            return t.left.id, True
        if isinstance(t.ops[0], (ast.Is, ast.Eq)):
            return t.left.id, False
    return None


def nn_true(t: ast.AST) -> Set[str]:
    """names known to be non-None when t is true"""
    r = _none_test(t)
    if r is not None:
        return {r[0]} if r[1] else set()
    if isinstance(t, ast.Name):
        return {t.id}
    if isinstance(t, ast.UnaryOp) and isinstance(t.op, ast.Not):
        return nn_false(t.operand)
    if isinstance(t, ast.BoolOp) and isinstance(t.op, ast.And):
        out: Set[str] = set()
        for v in t.values:
            out |= nn_true(v)
        return out
    if isinstance(t, ast.BoolOp) and isinstance(t.op, ast.Or):
        sets = [nn_true(v) for v in t.values]
        return set.intersection(*sets) if sets else set()
    if isinstance(t, ast.Call) and isinstance(t.func, ast.Name) and t.func.id in ("isinstance", "callable", "len") and t.args and isinstance(t.args[0], ast.Name):
        return {t.args[0].id}
    if isinstance(t, ast.NamedExpr):
        return nn_true(t.value)
    return set()


def nn_false(t: ast.AST) -> Set[str]:
    r = _none_test(t)
    if r is not None:
        return set() if r[1] else {r[0]}
    if isinstance(t, ast.UnaryOp) and isinstance(t.op, ast.Not):
        return nn_true(t.operand)
    if isinstance(t, ast.BoolOp) and isinstance(t.op, ast.Or):
        out: Set[str] = set()
        for v in t.values:
            out |= nn_false(v)
        return out
    if isinstance(t, ast.BoolOp) and isinstance(t.op, ast.And):
        sets = [nn_false(v) for v in t.values]
        return set.intersection(*sets) if sets else set()
    return set()


def _leaves(block: List[ast.stmt]) -> bool:
    if not block:
        return False
    last = block[-1]
    if isinstance(last, (ast.Return, ast.Raise, ast.Continue, ast.Break)):
        return True
    if isinstance(last, ast.If):
        return bool(last.orelse) and _leaves(last.body) and _leaves(last.orelse)
    return False


def candidates(fn: ast.AST) -> Set[str]:
    """single-binding names of fn that are tested against None somewhere in fn (nested functions excluded)"""
    stores = {}
    tested = set()
    params = {a.arg for a in fn.args.args + fn.args.kwonlyargs + fn.args.posonlyargs}
    plain = set()

    def walk(n, top=True):
        for c in ast.iter_child_nodes(n):
            if isinstance(c, (ast.FunctionDef, ast.AsyncFunctionDef, ast.Lambda, ast.ClassDef)):
                # a closure may re-bind through nonlocal: count its stores too, but its tests / derefs are not examined
                for x in ast.walk(c):
                    if isinstance(x, ast.Name) and isinstance(x.ctx, (ast.Store, ast.Del)):
                        stores[x.id] = stores.get(x.id, 0) + 2
                continue
            if isinstance(c, ast.Name) and isinstance(c.ctx, (ast.Store, ast.Del)):
                stores[c.id] = stores.get(c.id, 0) + 1
            if isinstance(c, ast.Assign) and len(c.targets) == 1 and isinstance(c.targets[0], ast.Name) and not (isinstance(c.value, ast.Constant) and c.value.value is None):
                plain.add(c.targets[0].id)
            r = _none_test(c)
            if r is not None:
                tested.add(r[0])
            walk(c, False)
    walk(fn)
    out = set()
    for v in tested:
        k = stores.get(v, 0)
        if (v in params and k == 0 and v not in ("self", "cls")) or (v not in params and k == 1 and v in plain):
            out.add(v)
    return out


def unguarded_derefs(fn: ast.AST) -> List[Tuple[str, ast.AST]]:
    """(name, node) for every dereference of a candidate name at a place where it is not known to be non-None"""
    cand = candidates(fn)
    if not cand:
        return []
    out: List[Tuple[str, ast.AST]] = []

    def expr(e: ast.AST, nn: Set[str]) -> None:
        if e is None:
            return
        if isinstance(e, (ast.Lambda, ast.FunctionDef, ast.AsyncFunctionDef)):
            return
        if isinstance(e, ast.BoolOp):
            cur = set(nn)
            for v in e.values:
                expr(v, cur)
                cur |= nn_true(v) if isinstance(e.op, ast.And) else nn_false(v)
            return
        if isinstance(e, ast.IfExp):
            expr(e.test, nn)
            expr(e.body, nn | nn_true(e.test))
            expr(e.orelse, nn | nn_false(e.test))
            return
        if isinstance(e, (ast.ListComp, ast.SetComp, ast.GeneratorExp, ast.DictComp)):
            cur = set(nn)
            for g in e.generators:
                expr(g.iter, cur)
                for c in g.ifs:
                    expr(c, cur)
                    cur |= nn_true(c)
            for part in ([e.key, e.value] if isinstance(e, ast.DictComp) else [e.elt]):
                expr(part, cur)
            return
        if isinstance(e, (ast.Attribute, ast.Subscript)) and isinstance(e.value, ast.Name) and e.value.id in cand and e.value.id not in nn:
            out.append((e.value.id, e))
        if isinstance(e, ast.Call) and isinstance(e.func, ast.Name) and e.func.id in cand and e.func.id not in nn:
            out.append((e.func.id, e))
        for c in ast.iter_child_nodes(e):
            if isinstance(c, ast.expr):
                expr(c, nn)
            elif isinstance(c, (ast.keyword,)):
                expr(c.value, nn)
            elif isinstance(c, ast.comprehension):
                pass
            elif isinstance(c, ast.Slice):
                for x in (c.lower, c.upper, c.step):
                    expr(x, nn)

    def block(stmts: List[ast.stmt], nn: Set[str]) -> Set[str]:
        nn = set(nn)
        for st in stmts:
            if isinstance(st, (ast.FunctionDef, ast.AsyncFunctionDef, ast.ClassDef)):
                continue
            if isinstance(st, ast.If):
                expr(st.test, nn)
                a = block(st.body, nn | nn_true(st.test))
                b = block(st.orelse, nn | nn_false(st.test))
                if _leaves(st.body) and not _leaves(st.orelse):
                    nn = b
                elif _leaves(st.orelse) and not _leaves(st.body):
                    nn = a
                else:
                    nn = a & b
                continue
            if isinstance(st, ast.Assert):
                expr(st.test, nn)
                nn |= nn_true(st.test)
                continue
            if isinstance(st, ast.While):
                expr(st.test, nn)
                block(st.body, nn | nn_true(st.test))
                block(st.orelse, nn)
                continue
            if isinstance(st, (ast.For, ast.AsyncFor)):
                expr(st.iter, nn)
                block(st.body, nn)
                block(st.orelse, nn)
                continue
            if isinstance(st, (ast.With, ast.AsyncWith)):
                for it in st.items:
                    expr(it.context_expr, nn)
                nn = block(st.body, nn)
                continue
            if isinstance(st, ast.Try):
                block(st.body, nn)
                for h in st.handlers:
                    block(h.body, nn)
                block(st.orelse, nn)
                block(st.finalbody, nn)
                continue
            if isinstance(st, ast.Match):
                for c in st.cases:
                    block(c.body, nn)
                continue
            for c in ast.iter_child_nodes(st):
                if isinstance(c, ast.expr):
                    expr(c, nn)
        return nn

    block(fn.body, set())
    return out
