"""E5b - polynomial normal form of straight-line numeric expressions.

Expressions (numpy idioms over vectors / sparse matrices) are translated into
polynomials over *atoms*: commuting scalar symbols and non-commuting
vector/matrix atoms, with rational coefficients.  Two source expressions denote
the same mathematical quantity iff their normal forms are equal; nothing is
said about rounding.  The oracle formulas of the rules are written in the same
Python syntax and go through the same translator, so the comparison is between
normal forms, never between texts.

Value kinds produced by the translator:
    Poly                       polynomial (typed 'scalar' | 'vec' | 'mat')
    ('norm', ord, Poly)        vector norm (ord: 'inf' | '2')
    ('max', frozenset{...})    max(...) of values
    ('block', (v1, v2, ..))    concatenated block vector
    ('opaque', text)           anything else (compares by text)
"""
from __future__ import annotations

import ast
from fractions import Fraction
from typing import Callable, Dict, List, Optional, Tuple, Union

from .model import AnalysisError, dotted, unparse

Mono = Tuple[Tuple[str, ...], Tuple[str, ...]]  # (sorted scalar symbols, ordered nc atoms)


class CannotNormalise(AnalysisError):
    pass


class Poly:
    __slots__ = ("terms", "typ")

    def __init__(self, terms: Optional[Dict[Mono, Fraction]] = None, typ: str = "scalar"):
        self.terms = {m: c for m, c in (terms or {}).items() if c != 0}
        self.typ = typ

    # -- constructors -----------------------------------------------------
    @staticmethod
    def const(v) -> "Poly":
        return Poly({((), ()): Fraction(v).limit_denominator(10 ** 12) if isinstance(v, float) else Fraction(v)}, "scalar")

    @staticmethod
    def scalar(name: str) -> "Poly":
        return Poly({((name,), ()): Fraction(1)}, "scalar")

    @staticmethod
    def atom(name: str, typ: str) -> "Poly":
        return Poly({((), (name,)): Fraction(1)}, typ)

    # -- arithmetic -----------------------------------------------------------
    def __add__(self, o: "Poly") -> "Poly":
        t = dict(self.terms)
        for m, c in o.terms.items():
            t[m] = t.get(m, 0) + c
        typ = self.typ if self.typ != "scalar" or not o.terms else o.typ
        if self.typ != o.typ and self.typ != "scalar" and o.typ != "scalar":
            typ = self.typ
        return Poly(t, typ)

    def __neg__(self) -> "Poly":
        return Poly({m: -c for m, c in self.terms.items()}, self.typ)

    def __sub__(self, o: "Poly") -> "Poly":
        return self + (-o)

    def __mul__(self, o: "Poly") -> "Poly":
        t: Dict[Mono, Fraction] = {}
        for (s1, n1), c1 in self.terms.items():
            for (s2, n2), c2 in o.terms.items():
                m = (tuple(sorted(s1 + s2)), n1 + n2)
                t[m] = t.get(m, 0) + c1 * c2
        typ = _mul_type(self.typ, o.typ)
        return Poly(t, typ)

    def is_const(self) -> Optional[Fraction]:
        if not self.terms:
            return Fraction(0)
        if len(self.terms) == 1 and ((), ()) in self.terms:
            return self.terms[((), ())]
        return None

    def is_scalar_only(self) -> bool:
        return all(not n for (_, n) in self.terms)

    def key(self) -> str:
        parts = []
        for (s, n), c in sorted(self.terms.items()):
            parts.append(f"{c}*{'*'.join(s)}|{'.'.join(n)}")
        return " + ".join(parts) or "0"

    def __eq__(self, o) -> bool:
        return isinstance(o, Poly) and self.terms == o.terms

    def __hash__(self):
        return hash(self.key())

    def __repr__(self) -> str:
        if not self.terms:
            return "0"
        out = []
        for (s, n), c in sorted(self.terms.items()):
            f = []
            if c != 1 or (not s and not n):
                f.append(str(c))
            f += list(s)
            f += list(n)
            out.append("*".join(f))
        return " + ".join(out)


def _mul_type(a: str, b: str) -> str:
    if a == "scalar":
        return b
    if b == "scalar":
        return a
    if a == "mat" and b == "vec":
        return "vec"
    if a == "mat" and b == "mat":
        return "mat"
    if a == "vec" and b == "mat":
        return "vec"  # row vector times matrix; used as (A^T v)
    return "scalar"  # vec*vec elementwise is not used for the formulas; callers use dot


def dot(a: Poly, b: Poly) -> Poly:
    """symmetric bilinear form of two vector polynomials -> scalar polynomial."""
    t: Dict[Mono, Fraction] = {}
    for (s1, n1), c1 in a.terms.items():
        for (s2, n2), c2 in b.terms.items():
            pair = tuple(sorted([".".join(n1), ".".join(n2)]))
            m = (tuple(sorted(s1 + s2)), (f"<{pair[0]},{pair[1]}>",))
            t[m] = t.get(m, 0) + c1 * c2
    return Poly(t, "scalar")


class Rational:
    """num/den of scalar polynomials; equality by cross multiplication."""

    def __init__(self, num: Poly, den: Poly):
        self.num, self.den = num, den

    def __eq__(self, o) -> bool:
        if isinstance(o, Poly):
            o = Rational(o, Poly.const(1))
        return isinstance(o, Rational) and (self.num * o.den) == (o.num * self.den)

    def __hash__(self):
        return 0

    def __repr__(self):
        return f"({self.num}) / ({self.den})"


Value = Union[Poly, Rational, tuple]


def veq(a: Value, b: Value) -> bool:
    if isinstance(a, (Poly, Rational)) or isinstance(b, (Poly, Rational)):
        if isinstance(a, Rational):
            return a == b
        if isinstance(b, Rational):
            return b == a
        return isinstance(a, Poly) and isinstance(b, Poly) and a == b
    if isinstance(a, tuple) and isinstance(b, tuple) and a and b and a[0] == b[0]:
        if a[0] == "norm":
            return a[1] == b[1] and (veq(a[2], b[2]) or veq(a[2], _neg(b[2])))
        if a[0] == "max":
            return len(a[1]) == len(b[1]) and all(any(veq(x, y) for y in b[1]) for x in a[1])
        if a[0] == "block":
            return len(a[1]) == len(b[1]) and all(veq(x, y) for x, y in zip(a[1], b[1]))
        return a == b
    return False


def _neg(v: Value) -> Value:
    if isinstance(v, Poly):
        return -v
    if isinstance(v, Rational):
        return Rational(-v.num, v.den)
    if isinstance(v, tuple) and v[0] == "block":
        return ("block", tuple(_neg(x) for x in v[1]))
    raise CannotNormalise(f"cannot negate {v!r}")


def vrepr(v: Value) -> str:
    if isinstance(v, tuple):
        if v[0] == "norm":
            return f"norm_{v[1]}({vrepr(v[2])})"
        if v[0] == "max":
            return "max(" + ", ".join(sorted(vrepr(x) for x in v[1])) + ")"
        if v[0] == "block":
            return "[" + " ; ".join(vrepr(x) for x in v[1]) + "]"
        return str(v)
    return repr(v)


class Translator:
    """translate a (resolved) Python expression into a Value.

    `atom_of(expr)` is supplied by the rule: it maps leaf expressions (attribute
    chains such as self.cons, iterate.x, parameters) to a Value or returns None;
    `call_hook(call, translate)` lets the rule inline repo methods."""

    def __init__(self, atom_of: Callable[[ast.AST], Optional[Value]], call_hook=None, scalars=()):
        self.atom_of = atom_of
        self.call_hook = call_hook
        self.scalars = set(scalars)

    def tr(self, e: ast.AST) -> Value:
        v = self.atom_of(e)
        if v is not None:
            return v
        if isinstance(e, ast.Constant) and isinstance(e.value, (int, float)) and not isinstance(e.value, bool):
            return Poly.const(e.value)
        if isinstance(e, ast.Name):
            if e.id in self.scalars:
                return Poly.scalar(e.id)
            raise CannotNormalise(f"unknown name `{e.id}` in a formula")
        if isinstance(e, ast.UnaryOp):
            if isinstance(e.op, ast.USub):
                return _neg(self.tr(e.operand))
            if isinstance(e.op, ast.UAdd):
                return self.tr(e.operand)
        if isinstance(e, ast.BinOp):
            if isinstance(e.op, ast.MatMult):
                return self._matmul(self.tr(e.left), self.tr(e.right))
            a, b = self.tr(e.left), self.tr(e.right)
            if isinstance(e.op, ast.Add):
                return self._add(a, b)
            if isinstance(e.op, ast.Sub):
                return self._add(a, _neg(b))
            if isinstance(e.op, ast.Mult):
                return self._mul(a, b)
            if isinstance(e.op, ast.Div):
                return self._div(a, b)
            if isinstance(e.op, ast.Pow):
                k = b.is_const() if isinstance(b, Poly) else None
                if k is not None and k.denominator == 1 and 0 <= k <= 4:
                    if isinstance(a, tuple) and a[0] == "norm" and a[1] == "2" and k == 2:
                        return dot(a[2], a[2])
                    out: Value = Poly.const(1)
                    for _ in range(int(k)):
                        out = self._mul(out, a)
                    return out
        if isinstance(e, ast.Attribute) and e.attr == "T":
            return self._transpose(self.tr(e.value))
        if isinstance(e, ast.Call):
            if self.call_hook is not None:
                r = self.call_hook(e, self)
                if r is not None:
                    return r
            d = dotted(e.func) or ""
            if d in ("np.dot", "numpy.dot") and len(e.args) == 2:
                return self._matmul(self.tr(e.args[0]), self.tr(e.args[1]))
            if d in ("norm_sq", "util.norm_sq", "pygradflow.util.norm_sq") and len(e.args) == 1:
                # the repository's own helper: norm_sq(x) is np.dot(x, x)
                v_ = self.tr(e.args[0])
                return self._matmul(v_, v_)
            if isinstance(e.func, ast.Attribute) and e.func.attr == "dot" and len(e.args) == 1 and d not in ("np.dot", "numpy.dot"):
                return self._matmul(self.tr(e.func.value), self.tr(e.args[0]))
            if d in ("float", "np.float64", "bool", "np.asarray", "np.array", "np.copy", "copy.copy", "_read_only", "np.atleast_1d") and len(e.args) >= 1:
                return self.tr(e.args[0])
            if d in ("np.linalg.norm", "numpy.linalg.norm") and e.args:
                o = e.args[1] if len(e.args) > 1 else next((k.value for k in e.keywords if k.arg == "ord"), None)
                ordn = "2"
                if o is not None:
                    ot = unparse(o)
                    if ot in ("np.inf", "numpy.inf", "inf"):
                        ordn = "inf"
                    elif ot in ("2", "None"):
                        ordn = "2"
                    else:
                        raise CannotNormalise(f"norm order {ot}")
                return ("norm", ordn, self.tr(e.args[0]))
            if d == "max" and e.args:
                args = list(e.args)
                # max(*(a, b)), max((a, b, c)), max([a, b]) are max(a, b, ..)
                if len(args) == 1 and isinstance(args[0], (ast.Tuple, ast.List)) and not e.keywords:
                    args = list(args[0].elts)
                flat = []
                for a in args:
                    if isinstance(a, ast.Starred) and isinstance(a.value, (ast.Tuple, ast.List)):
                        flat += list(a.value.elts)
                    else:
                        flat.append(a)
                args = flat
                if not any(isinstance(a, ast.Starred) for a in args):
                    return ("max", frozenset(self._hashable(self.tr(a)) for a in args))
            if d in ("np.concatenate", "numpy.concatenate", "np.hstack") and e.args and isinstance(e.args[0], (ast.List, ast.Tuple)):
                return ("block", tuple(self.tr(x) for x in e.args[0].elts))
            if d in ("np.sum",) and len(e.args) == 1 and isinstance(e.args[0], ast.BinOp) and isinstance(e.args[0].op, ast.Mult):
                return dot(self._poly(self.tr(e.args[0].left)), self._poly(self.tr(e.args[0].right)))
        raise CannotNormalise(f"cannot normalise `{unparse(e)[:120]}`")

    # -- helpers ----------------------------------------------------------------
    @staticmethod
    def _hashable(v: Value):
        return v

    def _poly(self, v: Value) -> Poly:
        if isinstance(v, Poly):
            return v
        raise CannotNormalise(f"polynomial expected, got {vrepr(v)}")

    def _add(self, a: Value, b: Value) -> Value:
        if isinstance(a, Poly) and isinstance(b, Poly):
            return a + b
        if isinstance(a, Rational) or isinstance(b, Rational):
            ra = a if isinstance(a, Rational) else Rational(self._poly(a), Poly.const(1))
            rb = b if isinstance(b, Rational) else Rational(self._poly(b), Poly.const(1))
            return Rational(ra.num * rb.den + rb.num * ra.den, ra.den * rb.den)
        if isinstance(a, tuple) and isinstance(b, tuple) and a[0] == b[0] == "block" and len(a[1]) == len(b[1]):
            return ("block", tuple(self._add(x, y) for x, y in zip(a[1], b[1])))
        raise CannotNormalise(f"cannot add {vrepr(a)} and {vrepr(b)}")

    def _mul(self, a: Value, b: Value) -> Value:
        if isinstance(a, Poly) and isinstance(b, Poly):
            if a.typ == "vec" and b.typ == "vec":
                raise CannotNormalise("element-wise vector product")
            return a * b
        if isinstance(a, Rational) or isinstance(b, Rational):
            ra = a if isinstance(a, Rational) else Rational(self._poly(a), Poly.const(1))
            rb = b if isinstance(b, Rational) else Rational(self._poly(b), Poly.const(1))
            if not (ra.den.is_scalar_only() and rb.den.is_scalar_only()):
                raise CannotNormalise("non-scalar denominator")
            return Rational(ra.num * rb.num, ra.den * rb.den)
        if isinstance(a, Poly) and a.typ == "scalar" and isinstance(b, tuple) and b[0] == "block":
            return ("block", tuple(self._mul(a, x) for x in b[1]))
        if isinstance(b, Poly) and b.typ == "scalar" and isinstance(a, tuple) and a[0] == "block":
            return ("block", tuple(self._mul(x, b) for x in a[1]))
        raise CannotNormalise(f"cannot multiply {vrepr(a)} and {vrepr(b)}")

    def _div(self, a: Value, b: Value) -> Value:
        if isinstance(b, Poly):
            k = b.is_const()
            if k is not None and k != 0 and isinstance(a, Poly):
                return a * Poly({((), ()): 1 / k})
            if b.is_scalar_only():
                ra = a if isinstance(a, Rational) else Rational(self._poly(a), Poly.const(1))
                return Rational(ra.num, ra.den * b)
        if isinstance(b, Rational) and isinstance(a, (Poly, Rational)):
            ra = a if isinstance(a, Rational) else Rational(a, Poly.const(1))
            return Rational(ra.num * b.den, ra.den * b.num)
        raise CannotNormalise(f"cannot divide {vrepr(a)} by {vrepr(b)}")

    def _matmul(self, a: Value, b: Value) -> Value:
        a, b = self._poly(a), self._poly(b)
        if a.typ == "vec" and b.typ == "vec":
            return dot(a, b)
        return a * b

    def _transpose(self, v: Value) -> Value:
        p = self._poly(v)
        t: Dict[Mono, Fraction] = {}
        for (s, n), c in p.terms.items():
            nn = tuple(_t_atom(x) for x in reversed(n))
            t[(s, nn)] = t.get((s, nn), 0) + c
        return Poly(t, p.typ)


def _t_atom(a: str) -> str:
    if a.startswith("H(") or a == "I":
        return a  # symmetric
    return a[:-1] if a.endswith("'") else a + "'"
