"""Definite-assignment analysis (the static counterpart of UnboundLocalError).

For every function a forward must-analysis computes the set of local names that are certainly bound at each statement;
a load of a local name outside that set is reported with the path shape that leaves it unbound.  Statement-level, hand
built for the statement kinds the repository uses.  Conservative choices (all towards *fewer* reports on feasible code):

  * `while True:` executes its body at least once; so does `for .. in range(<positive literal>)` and a `for` over a
    non-empty literal;  every other loop may execute zero times;
  * an exception may leave a `try` body at any point: handlers start from the state before the `try`;
  * names bound by `del` are unbound afterwards; `global` / `nonlocal` names and free variables are not locals;
  * loads inside nested functions / lambdas / comprehensions of the enclosing function's locals are evaluated later
    (or in their own scope) and are not checked here.
"""
from __future__ import annotations

import ast
import symtable
from dataclasses import dataclass
from typing import Dict, FrozenSet, Iterable, List, Optional, Set, Tuple

State = Optional[FrozenSet[str]]  # None = unreachable (top element: every name "assigned")


def _meet(a: State, b: State) -> State:
    if a is None:
        return b
    if b is None:
        return a
    return a & b


@dataclass
class Unbound:
    name: str
    node: ast.Name
    stmt: ast.stmt
    why: str


class _Fn:
    def __init__(self, fn: ast.AST, at_least_once=None, optimistic_loops: bool = False):
        self.fn = fn
        self.user_once = at_least_once
        self.optimistic = optimistic_loops
        self.locals = self._locals(fn)
        self.reports: List[Unbound] = []
        self.break_states: List[List[State]] = []
        self.loop_notes: Dict[str, str] = {}

    @staticmethod
    def _locals(fn) -> Set[str]:
        declared: Set[str] = set()
        assigned: Set[str] = set()

        def walk(n, top=True):
            for c in ast.iter_child_nodes(n):
                if isinstance(c, (ast.FunctionDef, ast.AsyncFunctionDef, ast.ClassDef)):
                    assigned.add(c.name)
                    continue
                if isinstance(c, ast.Lambda):
                    continue
                if isinstance(c, (ast.ListComp, ast.SetComp, ast.DictComp, ast.GeneratorExp)):
                    # only walrus targets leak out of a comprehension
                    for k in ast.walk(c):
                        if isinstance(k, ast.NamedExpr) and isinstance(k.target, ast.Name):
                            assigned.add(k.target.id)
                    continue
                if isinstance(c, (ast.Global, ast.Nonlocal)):
                    declared.update(c.names)
                if isinstance(c, ast.Name) and isinstance(c.ctx, (ast.Store, ast.Del)):
                    assigned.add(c.id)
                if isinstance(c, ast.ExceptHandler) and c.name:
                    assigned.add(c.name)
                if isinstance(c, (ast.Import, ast.ImportFrom)):
                    for a in c.names:
                        assigned.add((a.asname or a.name).split(".")[0])
                walk(c, False)
        walk(fn)
        a = fn.args
        params = {x.arg for x in a.posonlyargs + a.args + a.kwonlyargs}
        if a.vararg:
            params.add(a.vararg.arg)
        if a.kwarg:
            params.add(a.kwarg.arg)
        return (assigned | params) - declared

    # ---- expressions -------------------------------------------------------------------------
    def loads(self, e: Optional[ast.AST], st: State, stmt: ast.stmt) -> State:
        """check the loads of e against st (in evaluation order as far as walrus is concerned) and return the state after."""
        if e is None or st is None:
            return st
        cur = set(st)

        def visit(n):
            if isinstance(n, (ast.Lambda, ast.FunctionDef, ast.AsyncFunctionDef, ast.ClassDef)):
                if isinstance(n, ast.Lambda):
                    for d in n.args.defaults + [k for k in n.args.kw_defaults if k is not None]:
                        visit(d)
                return
            if isinstance(n, (ast.ListComp, ast.SetComp, ast.DictComp, ast.GeneratorExp)):
                # the first iterable is evaluated in the enclosing scope, now
                visit(n.generators[0].iter)
                for k in ast.walk(n):
                    if isinstance(k, ast.NamedExpr) and isinstance(k.target, ast.Name):
                        pass  # conditionally bound: not added
                return
            if isinstance(n, ast.NamedExpr):
                visit(n.value)
                if isinstance(n.target, ast.Name):
                    cur.add(n.target.id)
                return
            if isinstance(n, ast.BoolOp):
                # operands after the first are conditionally evaluated: check them, but keep only the first's bindings
                visit(n.values[0])
                keep = set(cur)
                for v in n.values[1:]:
                    visit(v)
                cur.clear()
                cur.update(keep)
                return
            if isinstance(n, ast.IfExp):
                visit(n.test)
                keep = set(cur)
                visit(n.body)
                cur.clear(); cur.update(keep)
                visit(n.orelse)
                cur.clear(); cur.update(keep)
                return
            if isinstance(n, ast.Name):
                if isinstance(n.ctx, ast.Load) and n.id in self.locals and n.id not in cur:
                    self.reports.append(Unbound(n.id, n, stmt, ""))
                return
            for c in ast.iter_child_nodes(n):
                visit(c)
        visit(e)
        return frozenset(cur)

    @staticmethod
    def targets(t: ast.AST) -> Set[str]:
        return {n.id for n in ast.walk(t) if isinstance(n, ast.Name) and isinstance(n.ctx, ast.Store)}

    # ---- statements --------------------------------------------------------------------------------
    def block(self, body: Iterable[ast.stmt], st: State) -> State:
        for s in body:
            st = self.stmt(s, st)
        return st

    def _at_least_once(self, loop: ast.stmt) -> bool:
        if self.optimistic:
            return True
        if self.user_once is not None and self.user_once(loop):
            return True
        if isinstance(loop, ast.While):
            return isinstance(loop.test, ast.Constant) and bool(loop.test.value)
        it = loop.iter
        if isinstance(it, ast.Call) and isinstance(it.func, ast.Name) and it.func.id == "range" and len(it.args) == 1 \
                and isinstance(it.args[0], ast.Constant) and isinstance(it.args[0].value, int) and it.args[0].value > 0:
            return True
        if isinstance(it, (ast.List, ast.Tuple, ast.Set)) and it.elts:
            return True
        return False

    def stmt(self, s: ast.stmt, st: State) -> State:
        if st is None:
            return None
        if isinstance(s, (ast.FunctionDef, ast.AsyncFunctionDef, ast.ClassDef)):
            for d in getattr(s, "decorator_list", []):
                st = self.loads(d, st, s)
            if not isinstance(s, ast.ClassDef):
                for d in s.args.defaults + [k for k in s.args.kw_defaults if k is not None]:
                    st = self.loads(d, st, s)
            return st | {s.name}
        if isinstance(s, ast.Assign):
            st = self.loads(s.value, st, s)
            for t in s.targets:
                # subscripts / attributes in targets load their bases
                for n in ast.walk(t):
                    if isinstance(n, ast.Name) and isinstance(n.ctx, ast.Load):
                        st = self.loads(n, st, s)
                st = st | self.targets(t)
            return st
        if isinstance(s, ast.AnnAssign):
            if s.value is None:
                return st
            st = self.loads(s.value, st, s)
            return st | self.targets(s.target)
        if isinstance(s, ast.AugAssign):
            st = self.loads(s.value, st, s)
            if isinstance(s.target, ast.Name):
                if s.target.id in self.locals and s.target.id not in st:
                    self.reports.append(Unbound(s.target.id, s.target, s, ""))
                return st | {s.target.id}
            return self.loads(s.target, st, s)
        if isinstance(s, (ast.Expr, ast.Return, ast.Raise, ast.Assert, ast.Delete)):
            if isinstance(s, ast.Expr):
                st = self.loads(s.value, st, s)
                return st
            if isinstance(s, ast.Return):
                self.loads(s.value, st, s)
                return None
            if isinstance(s, ast.Raise):
                self.loads(s.exc, st, s)
                self.loads(s.cause, st, s)
                return None
            if isinstance(s, ast.Assert):
                st = self.loads(s.test, st, s)
                # the message is evaluated on the failing path only
                self.loads(s.msg, st, s)
                return st
            if isinstance(s, ast.Delete):
                for t in s.targets:
                    if isinstance(t, ast.Name):
                        st = st - {t.id}
                    else:
                        st = self.loads(t, st, s)
                return st
        if isinstance(s, (ast.Import, ast.ImportFrom)):
            return st | {(a.asname or a.name).split(".")[0] for a in s.names}
        if isinstance(s, (ast.Pass, ast.Global, ast.Nonlocal)):
            return st
        if isinstance(s, ast.Break):
            if self.break_states:
                self.break_states[-1].append(st)
            return None
        if isinstance(s, ast.Continue):
            return None
        if isinstance(s, ast.If):
            st = self.loads(s.test, st, s)
            a = self.block(s.body, st)
            b = self.block(s.orelse, st)
            return _meet(a, b) if not (a is None and b is None) else None
        if isinstance(s, (ast.While, ast.For, ast.AsyncFor)):
            if isinstance(s, ast.While):
                head = self.loads(s.test, st, s)
                body_in = head
            else:
                head = self.loads(s.iter, st, s)
                body_in = head | self.targets(s.target)
            self.break_states.append([])
            body_out = self.block(s.body, body_in)
            breaks = self.break_states.pop()
            once = self._at_least_once(s)
            infinite = isinstance(s, ast.While) and isinstance(s.test, ast.Constant) and bool(s.test.value)
            # normal exit: the test fails / the iterable is exhausted
            if infinite:
                normal: State = None
            elif once:
                normal = body_out
            else:
                normal = _meet(head, body_out) if body_out is not None else head
            if normal is not None and s.orelse:
                normal = self.block(s.orelse, normal)
            out: State = normal
            for b in breaks:
                out = _meet(out, b) if out is not None else b
            if out is None and not breaks and normal is None:
                return None
            return out
        if isinstance(s, (ast.With, ast.AsyncWith)):
            for it in s.items:
                st = self.loads(it.context_expr, st, s)
                if it.optional_vars is not None:
                    st = st | self.targets(it.optional_vars)
            return self.block(s.body, st)
        if isinstance(s, ast.Try):
            body_out = self.block(s.body, st)
            if body_out is not None and s.orelse:
                body_out = self.block(s.orelse, body_out)
            outs = [body_out]
            for h in s.handlers:
                hin = self.loads(h.type, st, s)
                if h.name:
                    hin = hin | {h.name}
                hout = self.block(h.body, hin)
                if hout is not None and h.name:
                    hout = hout - {h.name}
                outs.append(hout)
            res: State = None
            for o in outs:
                if o is not None:
                    res = o if res is None else res & o
            if s.finalbody:
                fin = self.block(s.finalbody, st)
                if res is not None and fin is not None:
                    res = res | (fin - st)
                elif fin is None:
                    res = None
            return res
        if hasattr(ast, "Match") and isinstance(s, ast.Match):
            st = self.loads(s.subject, st, s)
            outs = []
            for c in s.cases:
                cin = st | {n.id for n in ast.walk(c.pattern) if isinstance(n, ast.Name)} | \
                    {n.name for n in ast.walk(c.pattern) if isinstance(n, (ast.MatchAs, ast.MatchStar)) and n.name}
                outs.append(self.block(c.body, cin))
            res = st
            for o in outs:
                res = _meet(res, o)
            return res
        # unknown statement kind: check its expressions, keep the state
        for c in ast.iter_child_nodes(s):
            if isinstance(c, ast.expr):
                st = self.loads(c, st, s)
        return st

    def run(self) -> List[Unbound]:
        a = self.fn.args
        params = {x.arg for x in a.posonlyargs + a.args + a.kwonlyargs}
        if a.vararg:
            params.add(a.vararg.arg)
        if a.kwarg:
            params.add(a.kwarg.arg)
        self.block(self.fn.body, frozenset(params))
        # one report per (name, statement)
        seen = set()
        out = []
        for r in self.reports:
            k = (r.name, id(r.stmt))
            if k not in seen:
                seen.add(k)
                out.append(r)
        return out


def possibly_unbound(fn: ast.AST, at_least_once=None, optimistic_loops: bool = False) -> List[Unbound]:
    """at_least_once(loop_stmt) -> bool lets the caller vouch for loops it can prove non-empty; optimistic_loops=True assumes it
    of every loop (used to tell 'unbound only if a loop runs zero times' apart from 'unbound along an ordinary path')."""
    return _Fn(fn, at_least_once, optimistic_loops).run()
