"""Findings, known findings, evidence files and exit codes (shared by all rules)."""
from __future__ import annotations

import ast
import json
import os
import re
import sys
import time
from dataclasses import dataclass, field
from typing import Any, Dict, List, Optional

VERIF = os.path.dirname(os.path.dirname(os.path.abspath(__file__)))
EVIDENCE_DIR = os.environ.get("PGF_EVIDENCE_DIR") or os.path.join(VERIF, "evidence")
REPLAY_DIR = os.path.join(EVIDENCE_DIR, "replay")
KNOWN_FILE = os.path.join(VERIF, "known_findings.json")


def norm_stmt(text: str) -> str:
    """key statements by normalised text, never by line number."""
    return re.sub(r"\s+", " ", text.strip())


@dataclass
class Finding:
    prop: str
    rule: str
    construct: str  # module.qualname of the function / class
    stmt: str  # normalised statement text (or other stable detail)
    message: str
    loc: str = ""  # file:line (diagnostic only; not part of the key)
    path: List[str] = field(default_factory=list)

    @property
    def key(self):
        return (self.prop, self.rule, self.construct, norm_stmt(self.stmt))

    def as_dict(self) -> Dict[str, Any]:
        return {"property": self.prop, "rule": self.rule, "construct": self.construct, "stmt": norm_stmt(self.stmt),
                "message": self.message, "loc": self.loc, "path": self.path}


@dataclass
class Obligation:
    rule: str
    where: str  # file:function
    what: str
    ok: bool
    nontrivial: bool = True


class Report:
    """collects obligations + findings for one property run."""

    def __init__(self, prop: str, tier: str):
        self.prop = prop
        self.tier = tier
        self.t0 = time.time()
        self.obligations: List[Obligation] = []
        self.findings: List[Finding] = []
        self.notes: List[str] = []
        self.undecided: List[str] = []
        self.extra: Dict[str, Any] = {}
        self.assumptions: List[str] = []
        self.explanation = ""
        self.pins: List[str] = []
        self.failed_pins: List[str] = []

    # -- recording -----------------------------------------------------------
    def ok(self, rule: str, where: str, what: str, nontrivial: bool = True) -> None:
        self.obligations.append(Obligation(rule, where, what, True, nontrivial))

    def fail(self, rule: str, construct: str, stmt: str, message: str, loc: str = "", path: Optional[List[str]] = None,
             where: Optional[str] = None) -> None:
        self.obligations.append(Obligation(rule, where or construct, message, False, True))
        f = Finding(self.prop, rule, construct, stmt, message, loc, list(path or []))
        if f.key not in {g.key for g in self.findings}:
            self.findings.append(f)

    def check(self, cond: bool, rule: str, construct: str, stmt: str, what: str, loc: str = "",
              path: Optional[List[str]] = None) -> bool:
        if cond:
            self.ok(rule, construct, what)
        else:
            self.fail(rule, construct, stmt, "VIOLATED: " + what, loc, path)
        return cond

    def note(self, text: str) -> None:
        self.notes.append(text)

    def pin(self, name: str, count: int, minimum: int) -> None:
        """instance-count pin: a rule that matches fewer instances than confirmed by
        hand on the pinned tree can never pass vacuously."""
        from .model import AnalysisError

        self.pins.append(f"{name}: {count} (min {minimum})")
        if count < minimum:
            self.failed_pins.append(f"rule '{name}' matched {count} instances, fewer than the {minimum} confirmed by hand; "
                                    f"the anchored code has changed shape - analysis cannot be trusted")

    def check_pins(self) -> None:
        """a failed pin makes the run an ANALYSIS-ERROR - unless a violation was positively identified,
        which stands on its own."""
        from .model import AnalysisError

        if self.failed_pins and not self.unlisted_findings():
            raise AnalysisError("; ".join(self.failed_pins))
        for p in self.failed_pins:
            self.note("pin not met (reported violations stand on their own): " + p)

    def unlisted_findings(self) -> List[Finding]:
        """findings that are not recorded as known: only these count as a positively identified violation."""
        known = load_known()
        return [f for f in self.findings if not ((match_known(known, f) or {}).get("status") == "known")]

    # -- finish --------------------------------------------------------------
    def finish(self) -> int:
        known = load_known()
        unlisted: List[Finding] = []
        listed: List[Finding] = []
        for f in self.findings:
            k = match_known(known, f)
            if k is not None and k.get("status") == "known":
                listed.append(f)
            else:
                unlisted.append(f)
        for f in listed:
            print(f"KNOWN-FINDING: property={self.prop} {f.rule} at {f.construct}: {f.message} [{f.loc}]")
        wall = time.time() - self.t0
        nobl = len(self.obligations)
        ndis = sum(1 for o in self.obligations if o.ok)
        distinct = len({(o.rule, o.where, o.what) for o in self.obligations if o.nontrivial})
        samples = [f"{o.where}: {o.rule}: {o.what} -> {'ok' if o.ok else 'VIOLATED'}" for o in self.obligations[:12]]
        # make sure at least one sample per rule is shown
        seen = {o.rule for o in self.obligations[:12]}
        for o in self.obligations[12:]:
            if o.rule not in seen:
                seen.add(o.rule)
                samples.append(f"{o.where}: {o.rule}: {o.what} -> {'ok' if o.ok else 'VIOLATED'}")
        ev = {
            "property_id": self.prop,
            "tier": self.tier,
            "seed": int(os.environ.get("VERIF_SEED", "0") or 0),
            "level": "other",
            "coverage": {
                "explanation": self.explanation,
                "obligations": nobl,
                "discharged": ndis,
                "evaluations": max(nobl, 1),
                "distinct_nontrivial": distinct,
                "rule": "one obligation per (rule, construct) pair extracted from /repo's current source; "
                        "non-trivial = the rule had a construct to examine at that site; instance-count pins: "
                        + "; ".join(self.pins),
                "samples": samples or ["(no obligations)"],
                "known_findings_reported": [f.as_dict() for f in listed],
                "violations": [f.as_dict() for f in unlisted],
                "undecided": self.undecided,
                "notes": self.notes,
                "exhaustive": True,
                **self.extra,
            },
            "assumptions": self.assumptions,
            "wall_s": round(wall, 3),
            "violations": len(unlisted),
        }
        os.makedirs(EVIDENCE_DIR, exist_ok=True)
        with open(os.path.join(EVIDENCE_DIR, f"{self.prop}.json"), "w") as fh:
            json.dump(ev, fh, indent=1, default=str)
        print(f"[{self.prop}/{self.tier}] obligations={nobl} discharged={ndis} distinct={distinct} "
              f"known={len(listed)} violations={len(unlisted)} wall={wall:.2f}s")
        for p in self.pins:
            print(f"  pin {p}")
        if unlisted:
            os.makedirs(REPLAY_DIR, exist_ok=True)
            rp = os.path.join(REPLAY_DIR, f"{self.prop}.json")
            with open(rp, "w") as fh:
                json.dump({"property": self.prop, "tier": self.tier, "violations": [f.as_dict() for f in unlisted]}, fh, indent=1)
            for f in unlisted:
                print(f"  {f.loc}: [{f.rule}] {f.construct}: {f.message}")
                print(f"      stmt: {norm_stmt(f.stmt)[:200]}")
                for p in f.path[:12]:
                    print(f"      via {p}")
            print(f"VIOLATION property={self.prop} replay={rp}")
            return 1
        return 0


def load_known() -> List[Dict[str, Any]]:
    if not os.path.exists(KNOWN_FILE):
        return []
    with open(KNOWN_FILE) as fh:
        data = json.load(fh)
    return data.get("findings", [])


def match_known(known: List[Dict[str, Any]], f: Finding) -> Optional[Dict[str, Any]]:
    for k in known:
        if k.get("property") == f.prop and k.get("rule") == f.rule and k.get("construct") == f.construct and \
                norm_stmt(k.get("stmt", "")) == norm_stmt(f.stmt):
            return k
    return None
