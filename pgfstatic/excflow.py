"""E3 - exception flow: which exception classes may escape each function.

For every function the *escape set* maps an exception class name to one
witness chain (list of "file:line: what").  Sources are explicit `raise`
statements, `assert`s (class AssertionError, tracked with kind 'assert'),
calls to repo functions / constructors, and loads of repo properties.
Handlers remove what they catch (subclass aware for repo classes and Python
builtins).  Fixed point over the call graph.
"""
from __future__ import annotations

import ast
import builtins
from dataclasses import dataclass, field
from typing import Dict, Iterator, List, Optional, Set, Tuple

from .model import ClassInfo, FuncInfo, Module, Program, dotted, own_nodes, unparse
from .symex import FuncFacts, StmtInfo, facts_for


def header_exprs(stmt: ast.stmt) -> List[ast.AST]:
    """expression nodes evaluated by the statement itself (not nested statements)."""
    if isinstance(stmt, ast.If) or isinstance(stmt, ast.While):
        return [stmt.test]
    if isinstance(stmt, ast.For):
        return [stmt.iter]
    if isinstance(stmt, ast.With):
        return [it.context_expr for it in stmt.items]
    if isinstance(stmt, ast.Try):
        return []
    if isinstance(stmt, (ast.FunctionDef, ast.AsyncFunctionDef, ast.ClassDef)):
        return []
    if isinstance(stmt, ast.Raise):
        return [x for x in (stmt.exc, stmt.cause) if x is not None]
    if isinstance(stmt, ast.Assert):
        return [stmt.test]  # message only evaluated on failure
    return [c for c in ast.iter_child_nodes(stmt) if isinstance(c, ast.expr)]


def walk_expr(e: ast.AST, into_lambdas: bool = False) -> Iterator[ast.AST]:
    stack = [e]
    while stack:
        n = stack.pop()
        yield n
        if isinstance(n, ast.Lambda) and not into_lambdas:
            continue
        stack.extend(ast.iter_child_nodes(n))


_CALLEE_CACHE: Dict[int, Dict] = {}


@dataclass
class Escape:
    cls: str  # qualified repo class name or builtin name or 'ext:<dotted>'
    kind: str  # 'raise' | 'assert' | 'external'
    chain: Tuple[str, ...]


class ExcFlow:
    # partial functions of the math module: (exception class, predicate on the call)
    PARTIAL_MATH = {
        "math.log": "ValueError", "math.log2": "ValueError", "math.log10": "ValueError", "math.sqrt": "ValueError",
        "math.acos": "ValueError", "math.asin": "ValueError", "math.pow": "ValueError", "math.exp": "OverflowError",
    }

    def __init__(self, prog: Program, lambda_policy=None, site_filter=None, partial_math=None):
        """site_filter(fi, si, kind, payload, callee) -> None (keep) | 'skip' (the site
        contributes nothing) | an ExcFlow instance whose escape set for the callee is used
        instead of this one's (context: validated receiver)."""
        self.prog = prog
        self.site_filter = site_filter
        self.partial_math = partial_math  # predicate(FuncInfo) -> bool: model math-domain errors in that function
        self.esc: Dict[str, Dict[Tuple[str, str], Tuple[str, ...]]] = {}
        # function qualname -> {(class, origin-site-key): chain}
        self.lambda_policy = lambda_policy or default_lambda_policy
        self.sites: Dict[str, List[Tuple[StmtInfo, str, object]]] = {}
        self._collect()
        self._solve()

    # -- class algebra -------------------------------------------------------
    def exc_class_name(self, fi: FuncInfo, expr: Optional[ast.AST]) -> Optional[str]:
        if expr is None:
            return None
        if isinstance(expr, ast.Call):
            expr = expr.func
        tgt = self.prog.resolve_expr_static(fi.module, expr)
        if isinstance(tgt, ClassInfo):
            return tgt.qualname
        d = dotted(expr)
        if d is None:
            return None
        if hasattr(builtins, d):
            return d
        return "ext:" + d

    def is_subclass(self, sub: str, sup: str) -> bool:
        if sub == sup:
            return True
        if sup in ("BaseException",):
            return True
        pc = self.prog.classes
        if sub in pc:
            ci = pc[sub]
            for c in self.prog.mro(ci):
                if c.qualname == sup:
                    return True
                for eb in c.ext_bases:
                    if hasattr(builtins, eb):
                        b = getattr(builtins, eb)
                        if hasattr(builtins, sup) and isinstance(b, type) and isinstance(getattr(builtins, sup), type) and issubclass(b, getattr(builtins, sup)):
                            return True
            return False
        if sub.startswith("ext:"):
            return sup == "Exception"  # external exception classes derive from Exception
        if hasattr(builtins, sub) and hasattr(builtins, sup):
            a, b = getattr(builtins, sub), getattr(builtins, sup)
            return isinstance(a, type) and isinstance(b, type) and issubclass(a, b)
        return False

    def handler_classes(self, fi: FuncInfo, h: ast.ExceptHandler) -> List[str]:
        if h.type is None:
            return ["BaseException"]
        ht = h.type
        if isinstance(ht, ast.Name):
            # `except _FAILURES:` with a module-level tuple of exception classes
            for st in fi.module.tree.body:
                v = st.value if isinstance(st, (ast.Assign, ast.AnnAssign)) else None
                tg = (st.targets[0] if isinstance(st, ast.Assign) and len(st.targets) == 1 else getattr(st, "target", None)) if v is not None else None
                if isinstance(tg, ast.Name) and tg.id == ht.id and isinstance(v, ast.Tuple):
                    ht = v
                    break
        elts = ht.elts if isinstance(ht, ast.Tuple) else [ht]
        return [self.exc_class_name(fi, e) or "ext:?" for e in elts]

    def caught_by(self, fi: FuncInfo, si: StmtInfo, cls: str) -> Optional[ast.ExceptHandler]:
        for t in reversed(si.tries):
            for h in t.handlers:
                for hc in self.handler_classes(fi, h):
                    if self.is_subclass(cls, hc):
                        return h
        return None

    # -- collection ----------------------------------------------------------
    def _collect(self) -> None:
        for fi in self.prog.functions.values():
            try:
                ff = facts_for(fi)
            except NotImplementedError as e:
                from .model import AnalysisError

                raise AnalysisError(str(e))
            sites: List[Tuple[StmtInfo, str, object]] = []
            for si in ff.order:
                st = si.stmt
                if isinstance(st, ast.Raise):
                    if st.exc is None:
                        # re-raise of whatever the enclosing handler caught
                        for h in si.handlers[-1:]:
                            for hc in self.handler_classes(fi, h):
                                sites.append((si, "reraise", hc))
                    else:
                        cn = self.exc_class_name(fi, st.exc)
                        if cn is None and isinstance(st.exc, ast.Name):
                            # `raise e` of a bound handler variable
                            for h in si.handlers[-1:]:
                                if h.name == st.exc.id:
                                    for hc in self.handler_classes(fi, h):
                                        sites.append((si, "reraise", hc))
                        elif cn is not None:
                            sites.append((si, "raise", cn))
                elif isinstance(st, ast.Assert):
                    sites.append((si, "assert", "AssertionError"))
                for e in header_exprs(st):
                    for n in walk_expr(e, into_lambdas=False):
                        if isinstance(n, ast.Call):
                            sites.append((si, "call", n))
                            if self.partial_math is not None and self.partial_math(fi):
                                d = dotted(n.func) or ""
                                cls = self.PARTIAL_MATH.get(d)
                                if cls is not None and not (d == "math.pow" and len(n.args) == 2 and isinstance(n.args[1], ast.Constant)
                                                            and isinstance(n.args[1].value, int) and n.args[1].value >= 0):
                                    sites.append((si, "raise", cls))
                        elif isinstance(n, ast.Attribute) and isinstance(n.ctx, ast.Load):
                            sites.append((si, "attr", n))
                        elif isinstance(n, ast.Lambda):
                            pol = self.lambda_policy(self.prog, fi, si, n)
                            if pol == "inline":
                                for m in walk_expr(n.body, into_lambdas=True):
                                    if isinstance(m, ast.Call):
                                        sites.append((si, "call", m))
                                    elif isinstance(m, ast.Attribute) and isinstance(m.ctx, ast.Load):
                                        sites.append((si, "attr", m))
            self.sites[fi.qualname] = sites

    def callees(self, fi: FuncInfo, kind: str, node) -> List[FuncInfo]:
        key = (id(node), kind)
        cache = _CALLEE_CACHE.setdefault(id(self.prog), {})
        if key not in cache:
            cache[key] = self._callees(fi, kind, node)
        return cache[key]

    def _callees(self, fi: FuncInfo, kind: str, node) -> List[FuncInfo]:
        out: List[FuncInfo] = []
        if kind == "call":
            for t in self.prog.resolve_call_target(fi, node):
                if isinstance(t, FuncInfo) and t not in out:
                    out.append(t)
            if not out and isinstance(node.func, ast.Attribute):
                out += self._cha_fallback(fi, node.func)
            # next(gen) where gen = self.generator_method(...): handled because the
            # generator call itself is treated as running the body
        elif kind == "attr":
            for t in self.prog.property_targets(fi, node):
                if t not in out:
                    out.append(t)
        return out

    _EXTERNAL_ROOTS = {"np", "sp", "math", "copy", "logging", "logger", "lgg", "time", "warnings", "functools",
                       "scipy", "numpy", "yaml", "os", "sys", "enum", "dataclasses", "mumps", "ssids", "sksparse",
                       "cyipopt", "typing", "abc"}

    def _cha_fallback(self, fi: FuncInfo, f: ast.Attribute) -> List[FuncInfo]:
        root = f.value
        while isinstance(root, (ast.Attribute, ast.Subscript, ast.Call)):
            root = root.value if not isinstance(root, ast.Call) else root.func
        if isinstance(root, ast.Name):
            if root.id in self._EXTERNAL_ROOTS:
                return []
            imp = fi.module.imports.get(root.id)
            if imp is not None and not imp[0].startswith("pygradflow"):
                return []
        if isinstance(f.value, ast.Constant):
            return []
        if isinstance(root, ast.Name) and root.id == "super":
            return []
        # receiver attribute assigned only from external calls -> external object
        if isinstance(f.value, ast.Attribute) and isinstance(f.value.value, ast.Name) and f.value.value.id == "self":
            c = self.prog.enclosing_class(fi)
            if c is not None:
                vals = self.prog.attr_values(c, f.value.attr)
                if vals and all(self._is_external_value(m, v) for m, v in vals):
                    return []
        return [m for m in self.prog.cha_by_name(f.attr) if not m.is_property]

    def _is_external_value(self, meth: FuncInfo, v: ast.AST) -> bool:
        if isinstance(v, ast.Constant):
            return True
        if isinstance(v, ast.Call):
            d = dotted(v.func) or ""
            root = d.split(".")[0]
            if root in self._EXTERNAL_ROOTS:
                return True
            imp = meth.module.imports.get(root)
            if imp is not None and not imp[0].startswith("pygradflow"):
                return True
        return False

    # -- fixed point ---------------------------------------------------------
    def _solve(self) -> None:
        esc = {q: {} for q in self.prog.functions}
        changed = True
        rounds = 0
        while changed:
            changed = False
            rounds += 1
            for q, fi in self.prog.functions.items():
                cur = esc[q]
                for si, kind, payload in self.sites[q]:
                    if kind in ("raise", "assert", "reraise"):
                        cls = payload
                        if self.caught_by(fi, si, cls) is None:
                            key = (cls, f"{fi.loc(si.stmt)}")
                            if key not in cur:
                                k = "assert" if kind == "assert" else "raise"
                                cur[key] = (f"{fi.loc(si.stmt)}: {k} in {fi.short}: {_short(si.stmt)}",)
                                changed = True
                    else:
                        for cal in self.callees(fi, kind, payload):
                            src = esc
                            if self.site_filter is not None:
                                r = self.site_filter(fi, si, kind, payload, cal)
                                if r == "skip":
                                    continue
                                if r is not None:
                                    src = r.esc
                            for (cls, origin), chain in list(src[cal.qualname].items()):
                                if self.caught_by(fi, si, cls) is not None:
                                    continue
                                key = (cls, origin)
                                if key not in cur:
                                    cur[key] = (f"{fi.loc(si.stmt)}: {fi.short} -> {cal.short}",) + chain
                                    changed = True
            if rounds > 60:
                break
        self.esc = esc
        self.rounds = rounds

    # -- queries -------------------------------------------------------------
    def escapes(self, qualname: str, cls: Optional[str] = None, include_asserts: bool = False):
        """[(class, origin, chain)] that may escape the function."""
        out = []
        for (c, origin), chain in self.esc.get(qualname, {}).items():
            if c == "AssertionError" and not include_asserts:
                continue
            if cls is not None and not self.is_subclass(c, cls):
                continue
            out.append((c, origin, chain))
        return sorted(out)

    def escaping_classes(self, qualname: str, include_asserts=False) -> Set[str]:
        return {c for c, _, _ in self.escapes(qualname, include_asserts=include_asserts)}


def _short(stmt: ast.stmt, n: int = 90) -> str:
    s = unparse(stmt).split("\n")[0]
    return s if len(s) <= n else s[: n - 3] + "..."


def default_lambda_policy(prog: Program, fi: FuncInfo, si: StmtInfo, lam: ast.Lambda) -> str:
    """'inline' = body may run while the enclosing statement's function is active
    (argument of a call: callbacks such as deriv_check(f, ...) are invoked
    synchronously); 'deferred' = stored for later (display state entries), which
    a dedicated rule checks separately."""
    st = si.stmt
    if isinstance(st, ast.Assign) and st.value is lam:
        return "deferred"
    return "inline"
