"""E6 - path enumeration through one block (typically a loop body).

A small statement-level CFG, hand-built for the statement kinds this repository
uses: if/elif/else, try/except/else/finally, with, return/raise/break/continue;
nested loops are opaque items ('loop').  Every acyclic path through the block
is enumerated as a list of items

    ('stmt', stmt)            a simple statement that is executed
    ('test', expr, polarity)  a branch decision
    ('loop', stmt)            a nested loop (body executed zero or more times)
    ('except', handler)       control arrived in an exception handler

with an ending in {'fall', 'break', 'continue', 'return', 'raise'}.
"""
from __future__ import annotations

import ast
from dataclasses import dataclass, field
from typing import Iterator, List, Sequence, Tuple

MAX_PATHS = 20000


@dataclass
class Path:
    items: List[tuple] = field(default_factory=list)
    end: str = "fall"

    def stmts(self) -> List[ast.stmt]:
        return [it[1] for it in self.items if it[0] in ("stmt", "loop")]

    def extended(self, item) -> "Path":
        return Path(self.items + [item], self.end)


class TooManyPaths(Exception):
    pass


def block_paths(body: Sequence[ast.stmt]) -> List[Path]:
    paths = [Path()]
    for st in body:
        nxt: List[Path] = []
        for p in paths:
            if p.end != "fall":
                nxt.append(p)
                continue
            for q in stmt_paths(st):
                nxt.append(Path(p.items + q.items, q.end))
        paths = nxt
        if len(paths) > MAX_PATHS:
            raise TooManyPaths()
    return paths


def stmt_paths(st: ast.stmt) -> List[Path]:
    if isinstance(st, ast.If):
        out = []
        for q in block_paths(st.body):
            out.append(Path([("test", st.test, True)] + q.items, q.end))
        for q in (block_paths(st.orelse) if st.orelse else [Path()]):
            out.append(Path([("test", st.test, False)] + q.items, q.end))
        return out
    if isinstance(st, (ast.For, ast.While)):
        return [Path([("loop", st)], "fall")]
    if isinstance(st, ast.With):
        out = []
        for q in block_paths(st.body):
            out.append(Path([("stmt", st)] + q.items, q.end))
        return out
    if isinstance(st, ast.Try):
        out = []
        body_paths = block_paths(st.body)
        for q in body_paths:
            if q.end == "fall" and st.orelse:
                for r in block_paths(st.orelse):
                    out.append(Path(q.items + r.items, r.end))
            else:
                out.append(q)
        # an exception may interrupt the body after any prefix; we model the two extremes that
        # matter for event counting: before the first and after the last statement of the body
        for h in st.handlers:
            for q in block_paths(h.body):
                out.append(Path([("except", h)] + q.items, q.end))
                for b in body_paths:
                    if b.items:
                        out.append(Path(b.items + [("except", h)] + q.items, q.end))
        if st.finalbody:
            fin = block_paths(st.finalbody)
            out2 = []
            for q in out:
                for f in fin:
                    out2.append(Path(q.items + f.items, f.end if f.end != "fall" else q.end))
            out = out2
        return out
    if isinstance(st, ast.Return):
        return [Path([("stmt", st)], "return")]
    if isinstance(st, ast.Raise):
        return [Path([("stmt", st)], "raise")]
    if isinstance(st, ast.Break):
        return [Path([("stmt", st)], "break")]
    if isinstance(st, ast.Continue):
        return [Path([("stmt", st)], "continue")]
    return [Path([("stmt", st)], "fall")]


def count_in_path(p: Path, pred) -> int:
    """number of path items (statements, including nested loop statements) for which pred(node) holds
    for some sub-node; nested loops count as 'many' (returned as 2) when they contain a match."""
    n = 0
    for it in p.items:
        if it[0] == "stmt":
            st = it[1]
            nodes = _own(st)
            n += sum(1 for x in nodes if pred(x))
        elif it[0] == "test":
            n += sum(1 for x in ast.walk(it[1]) if pred(x))
        elif it[0] == "loop":
            if any(pred(x) for x in ast.walk(it[1])):
                n += 2
    return n


def _own(st: ast.stmt):
    """nodes of a simple statement or the header of a With (bodies are separate items)."""
    if isinstance(st, ast.With):
        for it in st.items:
            yield from ast.walk(it.context_expr)
        return
    yield from ast.walk(st)


def first_index(p: Path, pred) -> int:
    for i, it in enumerate(p.items):
        if it[0] == "stmt" and any(pred(x) for x in _own(it[1])):
            return i
        if it[0] == "test" and any(pred(x) for x in ast.walk(it[1])):
            return i
        if it[0] == "loop" and any(pred(x) for x in ast.walk(it[1])):
            return i
    return -1
