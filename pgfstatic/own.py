"""E4 - ownership / alias-mutation analysis.

Abstract value of an expression = set of *tokens* it may alias:

    user:<callback>          object returned by a callback of a (possibly user's) Problem
    caller:<func>.<param>    argument of an entry point (x0, y0, ...)
    prot:<Class>.<attr>      caller-owned attribute (bound arrays, scaling weights, params arrays)
    k:sparse / k:dense       kind tags travelling with the value
    (empty set)              fresh

Values are computed on the *resolved* expressions of symex (names replaced by their
reaching definitions, phi nodes for joins), so the intraprocedural part is a
recursive walk over an expression; the interprocedural part is a fixed point over
   P[func][param]   tokens that may reach a parameter (union over resolved call sites)
   R[func]          tokens a function may return, parametric in `arg:<param>` placeholders
   H[(class,attr)]  tokens stored into an attribute anywhere in the program.
Mutation sinks: subscript / attribute stores into arrays, augmented assignment on dense
values (`+=` on a sparse matrix is a rebind), `out=` arguments, in-place methods.
The transfer table was checked against numpy 2.5 / scipy 1.18 in this image.
"""
from __future__ import annotations

import ast
from typing import Dict, FrozenSet, Iterable, List, Optional, Set, Tuple

from .model import ClassInfo, FuncInfo, Program, dotted, own_nodes, unparse
from .symex import ITER, LOOP, PHI, UNPACK, FuncFacts, StmtInfo, facts_for, is_call_to
from .excflow import header_exprs

Tok = str
SPARSE, DENSE = "k:sparse", "k:dense"

CALLBACKS = {"obj": None, "obj_grad": DENSE, "cons": DENSE, "cons_jac": SPARSE, "lag_hess": SPARSE}
WRAPPER_CLASSES = ("pygradflow.scale.ScaledProblem", "pygradflow.cons_problem.ConstrainedProblem", "pygradflow.eval.SimpleEvaluator",
                   "pygradflow.eval.ValidatingEvaluator", "pygradflow.eval.Evaluator")

PROTECTED_ATTRS = {
    ("pygradflow.problem.Problem", "var_lb"), ("pygradflow.problem.Problem", "var_ub"),
    ("pygradflow.problem.Problem", "cons_lb"), ("pygradflow.problem.Problem", "cons_ub"),
    ("pygradflow.params.Params", "scaling_primal"), ("pygradflow.params.Params", "scaling_dual"),
    ("pygradflow.scale.Scaling", "var_weights"), ("pygradflow.scale.Scaling", "cons_weights"),
}

ENTRY_PARAMS = {
    "pygradflow.solver.Solver.solve": ("x0", "y0"),
    "pygradflow.solver.Solver.perform_iteration": ("x0", "y0"),
    "pygradflow.integration.integration_solver.IntegrationSolver.solve": ("x0", "y0"),
    "pygradflow.scale.Scaling.__init__": ("var_weights", "cons_weights"),
    "pygradflow.scale.Scaling.from_nominal_values": ("var_values", "cons_values"),
    "pygradflow.problem.Problem.__init__": ("var_lb", "var_ub"),
}

# numpy / scipy functions whose result may share memory with an argument (index of that argument)
NP_ALIAS = {"asarray": 0, "asanyarray": 0, "atleast_1d": 0, "atleast_2d": 0, "broadcast_to": 0, "ravel": 0, "reshape": 0,
            "squeeze": 0, "transpose": 0, "real": 0, "ascontiguousarray": 0, "diagonal": 0, "swapaxes": 0, "moveaxis": 0}
NP_DENSE_MAKERS = {"zeros", "ones", "empty", "full", "arange", "array", "copy", "concatenate", "hstack", "vstack", "clip", "ldexp", "abs", "absolute",
                   "sqrt", "maximum", "minimum", "zeros_like", "ones_like", "empty_like", "full_like", "where", "logical_and", "logical_or",
                   "logical_not", "isclose", "isfinite", "dot", "frexp", "linspace", "diff", "sum", "linalg.norm", "searchsorted", "stack"}
METH_ALIAS = {"tocoo", "tocsr", "tocsc", "asformat", "view", "reshape", "ravel", "squeeze", "transpose", "asfptype", "tobsr", "todia", "tolil", "todok"}
METH_FRESH = {"copy", "toarray", "todense", "dot", "sum", "multiply", "power", "astype", "conj", "tolist", "nonzero", "any", "all", "max", "min", "item"}
INPLACE_METHODS = {"fill", "sort", "resize", "setdiag", "eliminate_zeros", "sort_indices", "sum_duplicates", "put", "itemset", "partition", "byteswap",
                   "setflags", "prune", "setdefault_not_used"}
NP_INPLACE_FIRST_ARG = {"put", "copyto", "place", "putmask", "fill_diagonal", "put_along_axis"}
ATTR_VIEWS = {"data", "row", "col", "indices", "indptr", "T", "real", "imag", "flat", "A", "H"}


def is_basic_index(idx: ast.AST) -> bool:
    """an index that yields a view (slices, ellipsis, integer constants)."""
    if isinstance(idx, ast.Slice):
        return True
    if isinstance(idx, ast.Constant) and (idx.value is Ellipsis or isinstance(idx.value, int)):
        return True
    if isinstance(idx, ast.UnaryOp) and isinstance(idx.operand, ast.Constant) and isinstance(idx.operand.value, int):
        return True
    if isinstance(idx, ast.Tuple):
        return any(isinstance(e, ast.Slice) for e in idx.elts) and all(
            isinstance(e, (ast.Slice, ast.Name)) or is_basic_index(e) or (isinstance(e, ast.Attribute) and e.attr == "newaxis") for e in idx.elts)
    return False


class Sink:
    def __init__(self, fi: FuncInfo, si: StmtInfo, target: ast.AST, kind: str, node: ast.AST):
        self.fi, self.si, self.target, self.kind, self.node = fi, si, target, kind, node


class Ownership:
    def __init__(self, prog: Program, extra_protected_params: Optional[Dict[str, Tuple[str, ...]]] = None):
        self.prog = prog
        self.P: Dict[str, Dict[str, Set[Tok]]] = {}
        self.Pprov: Dict[Tuple[str, str, Tok], str] = {}
        self.R: Dict[str, Set[Tok]] = {}
        self.Relts: Dict[str, List[Set[Tok]]] = {}
        self.H: Dict[Tuple[str, str], Set[Tok]] = {}
        self.Hprov: Dict[Tuple[str, str, Tok], str] = {}
        self.entry = dict(ENTRY_PARAMS)
        if extra_protected_params:
            self.entry.update(extra_protected_params)
        self.funcs = [f for f in prog.functions.values() if prog.in_scope(f) and "FixedActiveSetNewtonMethod" not in f.qualname]
        self._busy: Set = set()
        self.unresolved_calls = 0
        if not self._load_cache():
            self._solve()
            self._store_cache()

    # ------------------------------------------------------------------ cache (pure optimisation)
    def _cache_path(self) -> Optional[str]:
        import hashlib, os
        try:
            h = hashlib.sha256()
            h.update(self.prog.digest.encode())
            here = os.path.dirname(os.path.abspath(__file__))
            for fn in ("own.py", "symex.py", "model.py", "excflow.py"):
                with open(os.path.join(here, fn), "rb") as fh:
                    h.update(fh.read())
            h.update(repr(sorted(self.entry.items())).encode())
            d = os.path.join("/dev/shm", f"pgfstatic-cache-{os.getuid()}")
            os.makedirs(d, exist_ok=True)
            return os.path.join(d, "own-" + h.hexdigest()[:32] + ".pickle")
        except Exception:
            return None

    def _load_cache(self) -> bool:
        import os, pickle
        if os.environ.get("PGF_NO_CACHE"):
            return False
        p = self._cache_path()
        if not p or not os.path.exists(p):
            return False
        try:
            with open(p, "rb") as fh:
                d = pickle.load(fh)
            self.P, self.Pprov, self.R, self.Relts, self.H, self.Hprov, self.rounds = d
            self.from_cache = True
            return True
        except Exception:
            return False

    def _store_cache(self) -> None:
        import os, pickle
        p = self._cache_path()
        if not p:
            return
        try:
            tmp = p + f".{os.getpid()}.tmp"
            with open(tmp, "wb") as fh:
                pickle.dump((self.P, self.Pprov, self.R, self.Relts, self.H, self.Hprov, self.rounds), fh)
            os.replace(tmp, p)
        except Exception:
            pass

    # ------------------------------------------------------------------ tokens
    @staticmethod
    def protected(tokens: Iterable[Tok]) -> List[Tok]:
        return sorted(t for t in tokens if t.startswith(("user:", "caller:", "prot:")))

    def param_tokens(self, fi: FuncInfo, name: str) -> Set[Tok]:
        return self.P.get(fi.qualname, {}).get(name, set())

    # ------------------------------------------------------------------ expression values
    def val(self, fi: FuncInfo, ff: FuncFacts, e: ast.AST, symbolic: bool = False, depth: int = 0) -> Set[Tok]:
        """tokens of the (already resolved) expression e inside function fi."""
        if depth > 40:
            return set()
        V = lambda x: self.val(fi, ff, x, symbolic, depth + 1)
        if isinstance(e, ast.Name):
            f = fi
            while f is not None:
                if e.id in f.params:
                    if symbolic and f is fi:
                        return {f"arg:{e.id}"} | set(self._entry_tokens(f, e.id))
                    return set(self.param_tokens(f, e.id)) | set(self._entry_tokens(f, e.id))
                f = f.parent
            # closure variable of an enclosing function
            if fi.parent is not None:
                pf = facts_for(fi.parent)
                last = pf.order[-1] if pf.order else None
                if last is not None and e.id in last.env:
                    return self.val(fi.parent, pf, last.env[e.id], False, depth + 1)
            return set()
        if isinstance(e, ast.Constant):
            return set()
        if isinstance(e, (ast.BinOp,)):
            ks = {t for t in V(e.left) | V(e.right) if t.startswith("k:")}
            return ks
        if isinstance(e, ast.UnaryOp):
            return {t for t in V(e.operand) if t.startswith("k:")}
        if isinstance(e, (ast.Compare,)):
            return {DENSE}
        if isinstance(e, ast.BoolOp):
            out: Set[Tok] = set()
            for v in e.values:
                out |= V(v)
            return out
        if isinstance(e, ast.IfExp):
            return V(e.body) | V(e.orelse)
        if isinstance(e, (ast.Tuple, ast.List, ast.Set)):
            out = set()
            for v in e.elts:
                out |= V(v.value if isinstance(v, ast.Starred) else v)
            return {t for t in out if not t.startswith("k:")}
        if isinstance(e, ast.Dict):
            out = set()
            for v in e.values:
                if v is not None:
                    out |= V(v)
            return out
        if isinstance(e, ast.Starred):
            return V(e.value)
        if isinstance(e, ast.Attribute):
            return self._attr_val(fi, ff, e, symbolic, depth)
        if isinstance(e, ast.Subscript):
            base = V(e.value)
            if is_basic_index(e.slice):
                return base
            # containers (lists of arrays) keep their elements; arrays give copies
            if any(t == "k:list" for t in base):
                return {t for t in base if t != "k:list"}
            return {t for t in base if t.startswith("k:")}
        if isinstance(e, ast.Call):
            return self._call_val(fi, ff, e, symbolic, depth)
        if isinstance(e, (ast.Lambda, ast.ListComp, ast.GeneratorExp, ast.SetComp, ast.DictComp, ast.JoinedStr)):
            return set()
        if isinstance(e, ast.NamedExpr):
            return V(e.value)
        return set()

    def _entry_tokens(self, f: FuncInfo, name: str) -> List[Tok]:
        ps = self.entry.get(f.qualname)
        if ps and name in ps:
            return [f"caller:{f.short}.{name}"]
        return []

    def _attr_val(self, fi, ff, e: ast.Attribute, symbolic, depth) -> Set[Tok]:
        V = lambda x: self.val(fi, ff, x, symbolic, depth + 1)
        if e.attr in ATTR_VIEWS:
            base = V(e.value)
            out = {t for t in base if not t.startswith("k:")}
            if e.attr in ("data", "row", "col", "indices", "indptr"):
                out.add(DENSE)
            else:
                out |= {t for t in base if t.startswith("k:")}
            # a repo class may also have a field with that name (none today)
            return out
        types = self.prog.infer_type(fi, e.value)
        out: Set[Tok] = set()
        for t in types:
            for c in self.prog.mro(t):
                if (c.qualname, e.attr) in PROTECTED_ATTRS:
                    out.add(f"prot:{c.name}.{e.attr}")
            # properties
            for m in self.prog.dispatch(t, e.attr):
                if m.is_property:
                    out |= self._ret(m, {})
            for c in self.prog.mro(t) + self.prog.all_subclasses(t, include_self=False):
                out |= self.H.get((c.qualname, e.attr), set())
        if not types:
            # unknown receiver: an attribute of an aliased object (e.g. `.shape`) is not an alias of its storage
            return set()
        return out

    def _ret(self, m: FuncInfo, argvals: Dict[str, Set[Tok]]) -> Set[Tok]:
        out: Set[Tok] = set()
        for t in self.R.get(m.qualname, set()):
            if t.startswith("arg:"):
                out |= argvals.get(t[4:], set())
            else:
                out.add(t)
        return out

    def _call_val(self, fi, ff, e: ast.Call, symbolic, depth) -> Set[Tok]:
        V = lambda x: self.val(fi, ff, x, symbolic, depth + 1)
        f = e.func
        d = dotted(f) or ""
        if isinstance(f, ast.Name):
            if f.id == PHI:
                out: Set[Tok] = set()
                for a in e.args:
                    out |= V(a)
                return out
            if f.id == LOOP:
                name = e.args[0].value
                return self._all_defs(fi, ff, name, symbolic, depth)
            if f.id == UNPACK:
                src = e.args[0]
                k = e.args[1].value
                if isinstance(src, (ast.Tuple, ast.List)) and isinstance(k, int) and k < len(src.elts):
                    return V(src.elts[k])
                if isinstance(src, ast.Call) and isinstance(k, int):
                    tg = [t for t in self.prog.resolve_call_target(fi, src) if isinstance(t, FuncInfo)]
                    if tg and all(t.qualname in self.Relts and k < len(self.Relts[t.qualname]) for t in tg):
                        out = set()
                        for t in tg:
                            b = self._bind(t, src, fi, ff, symbolic, depth)
                            for tok in self.Relts[t.qualname][k]:
                                out |= b.get(tok[4:], set()) if tok.startswith("arg:") else {tok}
                        return out
                return V(src)
            if f.id == ITER:
                v = V(e.args[0])
                return {t for t in v if not t.startswith("k:")} if any(t == "k:list" for t in v) else set()
            if f.id in ("cast",) and len(e.args) == 2:
                return V(e.args[1])
            if f.id in ("float", "int", "bool", "len", "str", "abs", "max", "min", "sum", "range", "enumerate", "zip", "isinstance", "hash", "hex", "next"):
                if f.id in ("enumerate", "zip"):
                    return set()
                return set()
            if f.id in ("list", "tuple") and e.args:
                return V(e.args[0]) | {"k:list"}
        # numpy / scipy / copy
        root = d.split(".")[0] if d else ""
        if root in ("np", "numpy"):
            name = d.split(".", 1)[1] if "." in d else ""
            if name in NP_ALIAS and e.args:
                return V(e.args[NP_ALIAS[name]])
            outk = next((k.value for k in e.keywords if k.arg == "out"), None)
            if outk is not None:
                return V(outk)
            if name in ("dot", "matmul") and len(e.args) == 2:
                ks = {t for a in e.args for t in V(a) if t.startswith("k:")}
                return ks
            if name == "array" and any(k.arg == "copy" and isinstance(k.value, ast.Constant) and k.value.value is False for k in e.keywords) and e.args:
                return V(e.args[0])
            return {DENSE}
        if root in ("sp", "scipy"):
            if "sparse" in d:
                # coo_matrix((data, (row, col))) may share `data` (copy=False is the default)
                if d.endswith(("coo_matrix", "csr_matrix", "csc_matrix", "coo_array", "csr_array", "csc_array")) and e.args and isinstance(e.args[0], ast.Tuple) and e.args[0].elts:
                    cp = next((k.value for k in e.keywords if k.arg == "copy"), None)
                    if not (isinstance(cp, ast.Constant) and cp.value is True):
                        return {t for t in V(e.args[0].elts[0]) if not t.startswith("k:")} | {SPARSE}
                return {SPARSE}
            return set()
        if d == "copy.copy" and e.args:
            # shallow: a sparse matrix copy shares its data arrays
            return V(e.args[0])
        if d == "copy.deepcopy":
            return {t for t in V(e.args[0]) if t.startswith("k:")} if e.args else set()
        # methods of arrays / matrices
        if isinstance(f, ast.Attribute):
            recv_tokens = None
            tg = [t for t in self.prog.resolve_call_target(fi, e) if isinstance(t, (FuncInfo, ClassInfo))]
            repo_funcs = [t for t in tg if isinstance(t, FuncInfo)]
            # callbacks of a possibly user-provided Problem
            cbk = self._callback_tokens(fi, f)
            if f.attr in METH_ALIAS and not repo_funcs:
                base = V(f.value)
                if f.attr in ("tocoo", "tocsr", "tocsc", "asformat", "tobsr", "todia", "tolil", "todok"):
                    cp = next((k.value for k in e.keywords if k.arg == "copy"), None) or (e.args[0] if f.attr != "asformat" and e.args else None)
                    if isinstance(cp, ast.Constant) and cp.value is True:
                        return {SPARSE}
                    return {t for t in base if not t.startswith("k:")} | {SPARSE}
                return base
            if f.attr == "astype" and not repo_funcs:
                cp = next((k.value for k in e.keywords if k.arg == "copy"), None)
                if cp is not None and not (isinstance(cp, ast.Constant) and cp.value is True):
                    return V(f.value)
                return {t for t in V(f.value) if t.startswith("k:")}
            if f.attr in METH_FRESH and not repo_funcs:
                return {t for t in V(f.value) if t.startswith("k:")} if f.attr in ("copy", "astype", "multiply", "power", "conj") else ({DENSE} if f.attr in ("toarray", "todense") else set())
            if repo_funcs or cbk:
                out = set(cbk)
                for t in repo_funcs:
                    if t.name == "__init__":
                        continue
                    out |= self._ret(t, self._bind(t, e, fi, ff, symbolic, depth))
                return out
            if tg:
                return set()
            self.unresolved_calls += 0
            return set()
        # plain function call to repo function / class
        tg = [t for t in self.prog.resolve_call_target(fi, e)]
        out = set()
        for t in tg:
            if isinstance(t, FuncInfo) and t.name != "__init__":
                out |= self._ret(t, self._bind(t, e, fi, ff, symbolic, depth))
        return out

    def _callback_tokens(self, fi: FuncInfo, f: ast.Attribute) -> Set[Tok]:
        """`<something>.problem.<cb>(...)` / `problem.<cb>(...)` where the receiver is a Problem that may be the user's."""
        if f.attr not in CALLBACKS:
            return set()
        types = self.prog.infer_type(fi, f.value)
        if any(t.qualname == "pygradflow.problem.Problem" or any(b.qualname == "pygradflow.problem.Problem" for b in self.prog.mro(t)) for t in types):
            out = {f"user:{f.attr}"}
            if CALLBACKS[f.attr]:
                out.add(CALLBACKS[f.attr])
            return out
        return set()

    def _bind(self, callee: FuncInfo, call: ast.Call, fi, ff, symbolic, depth) -> Dict[str, Set[Tok]]:
        a = callee.node.args
        names = [x.arg for x in a.posonlyargs + a.args]
        if callee.cls is not None and not callee.is_static and names and names[0] in ("self", "cls"):
            names = names[1:]
        out: Dict[str, Set[Tok]] = {}
        for n, v in zip(names, call.args):
            if isinstance(v, ast.Starred):
                break
            out[n] = self.val(fi, ff, v, symbolic, depth + 1)
        for k in call.keywords:
            if k.arg is not None:
                out[k.arg] = self.val(fi, ff, k.value, symbolic, depth + 1)
        if isinstance(call.func, ast.Attribute) and callee.cls is not None and not callee.is_static:
            out["self"] = self.val(fi, ff, call.func.value, symbolic, depth + 1)
        return out

    def _all_defs(self, fi, ff, name: str, symbolic, depth) -> Set[Tok]:
        key = (fi.qualname, name, symbolic)
        if key in self._busy:
            return set()
        self._busy.add(key)
        try:
            out: Set[Tok] = set()
            for si in ff.order:
                st = si.stmt
                vals = []
                if isinstance(st, ast.Assign):
                    for t in st.targets:
                        vals += self._target_values(t, st.value, name)
                elif isinstance(st, ast.AnnAssign) and st.value is not None:
                    vals += self._target_values(st.target, st.value, name)
                elif isinstance(st, ast.AugAssign):
                    if (dotted(st.target) or "") == name:
                        vals.append(st.value)
                elif isinstance(st, ast.For):
                    vals += [ast.Call(func=ast.Name(id=ITER, ctx=ast.Load()), args=[st.iter], keywords=[])] if any(
                        isinstance(n, ast.Name) and n.id == name for n in ast.walk(st.target)) else []
                for v in vals:
                    from .symex import resolve
                    out |= self.val(fi, ff, resolve(v, si.env), symbolic, depth + 1)
            if name in fi.params:
                out |= ({f"arg:{name}"} if symbolic else set(self.param_tokens(fi, name))) | set(self._entry_tokens(fi, name))
            return out
        finally:
            self._busy.discard(key)

    @staticmethod
    def _target_values(t: ast.AST, value: ast.AST, name: str) -> List[ast.AST]:
        if (dotted(t) or "") == name:
            return [value]
        if isinstance(t, (ast.Tuple, ast.List)):
            out = []
            for k, el in enumerate(t.elts):
                if isinstance(value, (ast.Tuple, ast.List)) and len(value.elts) == len(t.elts):
                    out += Ownership._target_values(el, value.elts[k], name)
                else:
                    out += Ownership._target_values(el, ast.Call(func=ast.Name(id=UNPACK, ctx=ast.Load()), args=[value, ast.Constant(k)], keywords=[]), name)
            return out
        return []

    # ------------------------------------------------------------------ fixed point
    def _solve(self) -> None:
        for f in self.funcs:
            self.P.setdefault(f.qualname, {})
            self.R.setdefault(f.qualname, set())
        changed = True
        self.rounds = 0
        while changed and self.rounds < 30:
            changed = False
            self.rounds += 1
            for fi in self.funcs:
                ff = facts_for(fi)
                # returns (parametric)
                rs = [s for s in ff.order if isinstance(s.stmt, ast.Return) and s.stmt.value is not None]
                new_r: Set[Tok] = set()
                elts: Optional[List[Set[Tok]]] = None
                for s in rs:
                    rv = ff.resolved(s.stmt, s.stmt.value)
                    new_r |= self.val(fi, ff, rv, symbolic=True)
                    if isinstance(rv, ast.Tuple):
                        ev = [self.val(fi, ff, x, symbolic=True) for x in rv.elts]
                        if elts is None:
                            elts = ev
                        elif len(elts) == len(ev):
                            elts = [a | b for a, b in zip(elts, ev)]
                        else:
                            elts = []
                    else:
                        elts = []
                if _is_generator(fi):
                    for n in own_nodes(fi.node):
                        if isinstance(n, ast.Yield) and n.value is not None:
                            si = ff.stmt_of(n)
                            new_r |= self.val(fi, ff, ff.resolved(si.stmt, n.value), symbolic=True)
                if not new_r <= self.R[fi.qualname]:
                    self.R[fi.qualname] |= new_r
                    changed = True
                if elts:
                    old = self.Relts.get(fi.qualname)
                    if old is None or any(not a <= b for a, b in zip(elts, old)):
                        self.Relts[fi.qualname] = [a | (old[i] if old and i < len(old) else set()) for i, a in enumerate(elts)]
                        changed = True
                # heap stores and call-site bindings
                for si in ff.order:
                    st = si.stmt
                    if isinstance(st, (ast.Assign, ast.AnnAssign)) and getattr(st, "value", None) is not None:
                        tgs = st.targets if isinstance(st, ast.Assign) else [st.target]
                        for t in tgs:
                            changed |= self._heap_store(fi, ff, si, t, st.value)
                    for e in header_exprs(st):
                        for n in _walk_with_lambdas(e):
                            if isinstance(n, ast.Call):
                                changed |= self._bind_call(fi, ff, si, n)
                            # list.append(x) keeps x in the container: treat as heap store for self.<attr>.append(x)
        self.changed = changed

    def _heap_store(self, fi, ff, si, target: ast.AST, value: ast.AST) -> bool:
        if isinstance(target, (ast.Tuple, ast.List)):
            ch = False
            for k, el in enumerate(target.elts):
                v = value.elts[k] if isinstance(value, (ast.Tuple, ast.List)) and len(value.elts) == len(target.elts) else \
                    ast.Call(func=ast.Name(id=UNPACK, ctx=ast.Load()), args=[value, ast.Constant(k)], keywords=[])
                ch |= self._heap_store(fi, ff, si, el, v)
            return ch
        if not isinstance(target, ast.Attribute):
            return False
        types = self.prog.infer_type(fi, target.value)
        if not types:
            return False
        from .symex import resolve
        toks = self.val(fi, ff, resolve(value, si.env))
        ch = False
        for t in types:
            key = (t.qualname, target.attr)
            cur = self.H.setdefault(key, set())
            if not toks <= cur:
                for tok in toks - cur:
                    self.Hprov.setdefault((key[0], key[1], tok), f"{fi.loc(si.stmt)}: {fi.short}: {unparse(si.stmt).splitlines()[0][:90]}")
                cur |= toks
                ch = True
        return ch

    def _bind_call(self, fi, ff, si, call: ast.Call) -> bool:
        ch = False
        from .symex import resolve
        for t in self.prog.resolve_call_target(fi, call):
            callee = t if isinstance(t, FuncInfo) else None
            if callee is None or callee.qualname not in self.P:
                continue
            a = callee.node.args
            names = [x.arg for x in a.posonlyargs + a.args]
            if callee.cls is not None and not callee.is_static and names and names[0] in ("self", "cls"):
                names = names[1:]
            pairs = []
            for n, v in zip(names, call.args):
                if isinstance(v, ast.Starred):
                    # *entry -> all remaining params get the tokens of the starred value
                    for m in names[names.index(n):]:
                        pairs.append((m, v.value))
                    break
                pairs.append((n, v))
            for k in call.keywords:
                if k.arg is not None:
                    pairs.append((k.arg, k.value))
            for n, v in pairs:
                toks = self.val(fi, ff, resolve(v, si.env))
                cur = self.P[callee.qualname].setdefault(n, set())
                if not toks <= cur:
                    for tok in toks - cur:
                        self.Pprov.setdefault((callee.qualname, n, tok), f"{fi.loc(call)}: {fi.short} passes `{unparse(v)[:60]}` as {callee.short}({n})")
                    cur |= toks
                    ch = True
        return ch

    # ------------------------------------------------------------------ sinks
    def sinks(self, fi: FuncInfo) -> List[Sink]:
        ff = facts_for(fi)
        out: List[Sink] = []
        for si in ff.order:
            st = si.stmt
            if isinstance(st, ast.Assign):
                for t in st.targets:
                    out += self._store_sinks(fi, si, t)
            elif isinstance(st, ast.AnnAssign) and st.value is not None:
                out += self._store_sinks(fi, si, st.target)
            elif isinstance(st, ast.AugAssign):
                if isinstance(st.target, ast.Subscript):
                    out.append(Sink(fi, si, st.target.value, "subscript-augassign", st))
                else:
                    out.append(Sink(fi, si, st.target, "augassign:" + type(st.op).__name__, st))
            elif isinstance(st, ast.Delete):
                for t in st.targets:
                    if isinstance(t, ast.Subscript):
                        out.append(Sink(fi, si, t.value, "del-subscript", st))
            for e in header_exprs(st):
                for n in _walk_with_lambdas(e):
                    if isinstance(n, ast.Call):
                        for k in n.keywords:
                            if k.arg == "out" and not (isinstance(k.value, ast.Constant) and k.value.value is None):
                                out.append(Sink(fi, si, k.value, "out=", n))
                        f = n.func
                        if isinstance(f, ast.Attribute) and f.attr == "setflags" and not n.args and [k.arg for k in n.keywords] == ["write"]:
                            out.append(Sink(fi, si, f.value, "flag:writeable", n))      # `a.setflags(write=..)` is `a.flags.writeable = ..`
                        elif isinstance(f, ast.Attribute) and f.attr in INPLACE_METHODS:
                            out.append(Sink(fi, si, f.value, "method:" + f.attr, n))
                        d = dotted(f) or ""
                        if d.split(".")[0] in ("np", "numpy") and d.split(".")[-1] in NP_INPLACE_FIRST_ARG and n.args:
                            out.append(Sink(fi, si, n.args[0], "np." + d.split(".")[-1], n))
        return out

    def _store_sinks(self, fi, si, t: ast.AST) -> List[Sink]:
        if isinstance(t, (ast.Tuple, ast.List)):
            out = []
            for el in t.elts:
                out += self._store_sinks(fi, si, el)
            return out
        if isinstance(t, ast.Subscript):
            return [Sink(fi, si, t.value, "subscript-store", si.stmt)]
        if isinstance(t, ast.Attribute) and t.attr in ("data", "indices", "indptr", "row", "col", "shape"):
            return [Sink(fi, si, t.value, "attr-store:" + t.attr, si.stmt)]
        if isinstance(t, ast.Attribute) and t.attr == "writeable":
            return [Sink(fi, si, t.value.value if isinstance(t.value, ast.Attribute) else t.value, "flag:writeable", si.stmt)]
        return []

    def sink_tokens(self, s: Sink) -> Set[Tok]:
        from .symex import resolve, _load
        ff = facts_for(s.fi)
        toks = self.val(s.fi, ff, resolve(_load(s.target), s.si.env))
        if s.kind.startswith("augassign:"):
            op = s.kind.split(":")[1]
            # `+=` / `-=` on a scipy sparse matrix falls back to `a = a + b` (a rebind, not a write)
            if op in ("Add", "Sub") and SPARSE in toks and DENSE not in toks:
                return set()
            # augmented assignment on a plain Python number rebinds as well: only arrays matter
        return toks

    def explain(self, fi: FuncInfo, tok: Tok, limit: int = 6) -> List[str]:
        """provenance chain for a token seen in fi (best effort)."""
        out = []
        for (q, n, t), why in self.Pprov.items():
            if t == tok and q == fi.qualname:
                out.append(why)
        for (c, a, t), why in self.Hprov.items():
            if t == tok:
                out.append(f"stored into {c.rsplit('.', 1)[-1]}.{a} at {why}")
        return out[:limit]


def _is_generator(fi: FuncInfo) -> bool:
    return any(isinstance(n, (ast.Yield, ast.YieldFrom)) for n in own_nodes(fi.node))


def _walk_with_lambdas(e: ast.AST):
    stack = [e]
    while stack:
        n = stack.pop()
        yield n
        stack.extend(ast.iter_child_nodes(n))
